#!/bin/bash
# setup_cmd: offline install of the contract libraries beside the repository's interpreter.
HERE="$(cd "$(dirname "${BASH_SOURCE[0]}")" && pwd)"
mkdir -p "$HERE/.deps" "$HERE/.work" "$HERE/replays" "$HERE/evidence"
if [ ! -d "$HERE/.deps/icontract" ]; then
    PIP_NO_INDEX=1 /venv/bin/pip install --quiet --no-index --find-links /opt/veriftools/wheels \
        --target "$HERE/.deps" icontract deal 2>&1 | grep -v -i -E "conda|warning" || true
fi
[ -d "$HERE/.deps/icontract" ] && echo "setup ok" || { echo "setup: icontract missing (checks fall back to plain wrappers)"; }
exit 0
