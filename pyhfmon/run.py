"""./check <ID> [--tier quick|thorough] [--replay path]  (and the internal --shard mode)."""
import argparse
import faulthandler
import importlib
import json
import os
import shutil
import subprocess
import sys
import tempfile
import time
import traceback

from . import VERIF
from .core import Shard, merge_and_report

SRC = os.environ.get("PYHF_SRC", "/repo/src")


def _module(pid):
    return importlib.import_module(f"pyhfmon.props.{pid.lower()}")


def _install_reach(shard):
    """sys.monitoring reach map: which pyhf functions were entered (≈0 overhead: DISABLE
    after the first hit per code object)."""
    try:
        mon = sys.monitoring
    except AttributeError:
        return lambda: None
    tool = 4
    seen = set()
    prefix = os.path.realpath(SRC) + os.sep

    def on_start(code, offset):
        fn = code.co_filename
        if fn.startswith(prefix):
            seen.add((fn[len(prefix):], code.co_qualname))
        return mon.DISABLE

    try:
        mon.use_tool_id(tool, "pyhfmon-reach")
        mon.register_callback(tool, mon.events.PY_START, on_start)
        mon.set_events(tool, mon.events.PY_START)
    except Exception:
        return lambda: None

    def finish():
        try:
            mon.set_events(tool, 0)
            mon.free_tool_id(tool)
        except Exception:
            pass
        files = {}
        for fn, qn in seen:
            files.setdefault(fn, set()).add(qn)
        for fn, qs in files.items():
            shard.cover["reach:" + fn].update(qs)

    return finish


def run_shard_process(pid, params_file, out_file):
    faulthandler.enable()
    with open(params_file) as f:
        p = json.load(f)
    shard = Shard(pid, p["tier"], p["seed"], p["index"], p["params"])
    mod = _module(pid)
    finish_reach = _install_reach(shard)
    try:
        mod.run_shard(shard)
    except Exception as exc:
        tb = traceback.extract_tb(exc.__traceback__)
        src = os.path.realpath(SRC)
        raised_in_pyhf = bool(tb) and os.path.realpath(tb[-1].filename).startswith(src)
        # deepest pyhf frame, if the exception surfaced from a third-party library called by pyhf
        through_pyhf = any(os.path.realpath(f.filename).startswith(src) for f in tb)
        last_verif = max((i for i, f in enumerate(tb) if "/pyhfmon/" in f.filename), default=-1)
        if raised_in_pyhf or (through_pyhf and last_verif < len(tb) - 1 and any(os.path.realpath(f.filename).startswith(src) for f in tb[last_verif + 1:])):
            # pyhf itself raised on an in-domain workload step that no driver expected to fail: on the unchanged tree
            # this never happens, so it is a verdict about the code under test, not about the harness
            where = next((f for f in reversed(tb) if os.path.realpath(f.filename).startswith(src)), tb[-1])
            shard.violate(
                f"{pid}/pyhf-raised:{type(exc).__name__}",
                f"{type(exc).__name__}: {str(exc)[:300]} raised from {os.path.relpath(where.filename, src)}:{where.lineno} ({where.name}) during the workload",
                {"traceback": traceback.format_exc()[-1200:]},
            )
        else:
            shard.inconclusive_because(
                "monitor/workload raised: " + traceback.format_exc()[-1500:].replace("\n", " | ")
            )
    finish_reach()
    shard.dump(out_file)
    return 0


def run_check(pid, tier, seed):
    t0 = time.time()
    mod = _module(pid)
    plan = mod.plan(tier, seed)
    work = tempfile.mkdtemp(prefix=f"{pid}-", dir=_workdir())
    jobs = []
    for i, params in enumerate(plan):
        pf = os.path.join(work, f"p{i}.json")
        of = os.path.join(work, f"o{i}.json")
        with open(pf, "w") as f:
            json.dump({"tier": tier, "seed": seed, "index": i, "params": params}, f)
        jobs.append((i, pf, of, params))
    maxpar = int(os.environ.get("VERIF_JOBS", os.cpu_count() or 4))
    default_timeout = 1500 if tier == "quick" else 4 * 3600
    running = []
    pending = list(jobs)
    crashed = []
    outs = []
    env = dict(os.environ)
    while pending or running:
        while pending and len(running) < maxpar:
            i, pf, of, params = pending.pop(0)
            log = open(os.path.join(work, f"log{i}.txt"), "w")
            proc = subprocess.Popen(
                [sys.executable, "-W", "ignore", "-m", "pyhfmon.run", pid, "--shard", pf, "--out", of],
                stdout=log, stderr=subprocess.STDOUT, env=env, cwd=VERIF,
            )
            running.append((proc, i, of, time.time(), params.get("timeout", default_timeout), log))
        time.sleep(0.05)
        still = []
        for proc, i, of, ts, to, log in running:
            rc = proc.poll()
            if rc is None:
                if time.time() - ts > to:
                    proc.kill()
                    proc.wait()
                    log.close()
                    crashed.append(f"shard {i} hit the wall-clock watchdog ({to}s)")
                else:
                    still.append((proc, i, of, ts, to, log))
                continue
            log.close()
            if os.path.exists(of):
                outs.append(of)
            else:
                tail = ""
                try:
                    with open(os.path.join(work, f"log{i}.txt")) as f:
                        tail = f.read()[-800:].replace("\n", " | ")
                except Exception:
                    pass
                crashed.append(f"shard {i} exited rc={rc} without output: {tail}")
        running = still
    code = merge_and_report(
        pid, tier, seed, mod.LEVEL, mod.RULE, sorted(outs), crashed, t0,
        getattr(mod, "ASSUMPTIONS", []), getattr(mod, "REQUIRED", ()),
        extra=getattr(mod, "extra_coverage", lambda tier: None)(tier),
        anchors=_anchors(pid),
    )
    shutil.rmtree(work, ignore_errors=True)
    return code


def _anchors(pid):
    try:
        with open(os.path.join(VERIF, "properties.jsonl")) as f:
            for line in f:
                p = json.loads(line)
                if p["id"] == pid:
                    return [a.replace("src/", "", 1) for a in p["anchors"]["files"]]
    except Exception:
        pass
    return None


def _workdir():
    d = os.path.join(VERIF, ".work")
    os.makedirs(d, exist_ok=True)
    return d


def run_replay(pid, path):
    with open(path) as f:
        rec = json.load(f)
    mod = _module(pid)
    shard = Shard(pid, rec.get("tier", "quick"), rec.get("seed", 0), 0, {})
    if not hasattr(mod, "replay"):
        print(f"{pid}: no replay function; stored witness follows")
        print(json.dumps(rec, indent=1)[:4000])
        return 0
    mod.replay(rec, shard)
    if shard.nviolations:
        for v in shard.violations:
            print(f"VIOLATION property={pid} replay={path}")
            print(f"  mechanism={v['mechanism']} detail={v['detail'][:1500]}")
        return 1
    print(f"{pid}: replayed case holds now ({shard.evaluations} evaluations)")
    return 0


def main():
    ap = argparse.ArgumentParser()
    ap.add_argument("pid")
    ap.add_argument("--tier", default=os.environ.get("VERIF_TIER", "quick"))
    ap.add_argument("--replay")
    ap.add_argument("--shard")
    ap.add_argument("--out")
    a = ap.parse_args()
    pid = a.pid.upper()
    if a.shard:
        sys.exit(run_shard_process(pid, a.shard, a.out))
    if a.replay:
        sys.exit(run_replay(pid, a.replay))
    seed = int(os.environ.get("VERIF_SEED", "0") or 0)
    tier = a.tier if a.tier in ("quick", "thorough") else "quick"
    sys.exit(run_check(pid, tier, seed))


if __name__ == "__main__":
    main()
