"""Seeded generators of HistFactory specs / workspaces / parameter points / data.

Everything is a pure function of a ``random.Random`` instance.  Values are chosen so
that histories are *unambiguous*: yields, modifier data and auxiliary data are pairwise
distinct, so a permuted index or a mis-paired term changes an observed number.
"""
import copy
import math
import random

CHANNEL_NAMES = ["SR", "CR", "cr_low", "Z", "a", "ch10", "ch2", "_x", "B1", "VR_top", "zz"]
SAMPLE_NAMES = ["signal", "bkg", "Wjets", "ttbar", "a_fake", "Zll", "_qcd", "B2"]
SYS_NAMES = ["jes", "JER", "alpha_b", "lumi_unc", "Zscale", "_pdf", "acc", "k1", "x10", "x2"]

ALL_TYPES = ["normfactor", "normsys", "histosys", "shapesys", "staterror", "shapefactor", "lumi"]


def _round(x, nd=6):
    return float(round(x, nd))


def _distinct_yield(rng, lo=2.0, hi=120.0):
    # three significant decimals: distinct with overwhelming probability, exact in JSON
    return _round(rng.uniform(lo, hi), 3)


def gen_spec(rng, profile="structural", max_channels=4, max_samples=4, max_bins=5,
             types=None, allow_zero=True, poi_required=True, max_nuis=None):
    """Return (spec, info).  spec = {'channels': [...], 'parameters': [...]} (model-level),
    info = {'poi': name, 'lumi': bool, ...}.

    profile 'structural': anything well-formed, including exact zeros, zero uncertainties,
    inverted / one-sided variations.  profile 'wellposed': strictly positive expectations,
    moderate systematics, every nuisance constrained or data-determined.
    """
    types = list(types) if types is not None else list(ALL_TYPES)
    wellposed = profile == "wellposed"
    nch = rng.randint(1, max_channels)
    chan_names = rng.sample(CHANNEL_NAMES, nch)
    nsamp_pool = rng.randint(1 if not wellposed else 2, max_samples)
    samp_pool = rng.sample(SAMPLE_NAMES, nsamp_pool)
    if "signal" not in samp_pool:
        samp_pool[0] = "signal"
    rng.shuffle(samp_pool)

    # channel widths; shapefactor sharing across channels needs equal widths
    widths = {c: rng.randint(1, max_bins) for c in chan_names}
    if nch >= 2 and rng.random() < 0.5:
        w = widths[chan_names[0]]
        widths[chan_names[1]] = w

    # which samples live in which channel (signal everywhere so that the POI acts)
    members = {}
    for c in chan_names:
        others = [s for s in samp_pool if s != "signal"]
        k = rng.randint(0 if not wellposed else min(1, len(others)), len(others))
        ms = ["signal"] + rng.sample(others, k)
        rng.shuffle(ms)
        members[c] = ms

    # shared scalar systematics
    nsys = rng.randint(0, 4) if not wellposed else rng.randint(1, 3)
    sys_names = rng.sample(SYS_NAMES, nsys)
    use_lumi = "lumi" in types and rng.random() < (0.45 if not wellposed else 0.3)
    # extra normfactor shared by several background samples
    kfac = "k_bkg" if ("normfactor" in types and rng.random() < 0.5) else None
    kfac_sample = None
    bkgs = [s for s in samp_pool if s != "signal"]
    if kfac and bkgs:
        kfac_sample = rng.choice(bkgs)
    # cross-channel staterror / shapefactor names
    channels = []
    shapefactor_shared = None
    if "shapefactor" in types and not wellposed and rng.random() < 0.4 and bkgs:
        shapefactor_shared = ("sf_shared", rng.choice(bkgs))
    used_shapesys = 0
    nuis_budget = [max_nuis if max_nuis is not None else 10 ** 9]

    nuis_budget[0] -= nsys

    def take(n):
        if nuis_budget[0] >= n:
            nuis_budget[0] -= n
            return True
        return False

    # staterror spanning two channels with identical participants
    stat_cross = None
    if "staterror" in types and nch >= 2 and rng.random() < 0.3:
        c1, c2 = chan_names[0], chan_names[1]
        common = [s for s in members[c1] if s in members[c2] and s != "signal"]
        if common:
            k = rng.randint(1, len(common))
            stat_cross = ("stat_x", (c1, c2), rng.sample(common, k))

    for c in chan_names:
        nb = widths[c]
        samples = []
        # staterror participants of this channel
        stat_name = None
        stat_parts = []
        if "staterror" in types and rng.random() < 0.6:
            if stat_cross and c in stat_cross[1]:
                stat_name, stat_parts = stat_cross[0], list(stat_cross[2])
            else:
                cands = [s for s in members[c] if s != "signal"] or list(members[c])
                k = rng.randint(1, len(cands))
                stat_name, stat_parts = f"staterror_{c}", rng.sample(cands, k)
            if not take(nb):
                stat_name, stat_parts = None, []
        elif stat_cross and c in stat_cross[1]:
            stat_name, stat_parts = stat_cross[0], list(stat_cross[2])
        for s in members[c]:
            is_sig = s == "signal"
            if is_sig:
                data = [_distinct_yield(rng, 1.0, 25.0) for _ in range(nb)]
            else:
                data = [_distinct_yield(rng, 8.0, 150.0) for _ in range(nb)]
            if allow_zero and not wellposed and not is_sig and rng.random() < 0.12:
                data[rng.randrange(nb)] = 0.0
            mods = []
            if is_sig:
                mods.append({"name": "mu", "type": "normfactor", "data": None})
            elif kfac and s == kfac_sample:
                mods.append({"name": kfac, "type": "normfactor", "data": None})
            if use_lumi and rng.random() < 0.7:
                mods.append({"name": "lumi", "type": "lumi", "data": None})
            for sn in sys_names:
                r = rng.random()
                if "normsys" in types and r < 0.45:
                    if wellposed:
                        hi = _round(1 + rng.uniform(0.02, 0.25), 4)
                        lo = _round(1 - rng.uniform(0.02, 0.25), 4)
                    else:
                        kind = rng.random()
                        if kind < 0.6:
                            hi = _round(1 + rng.uniform(0.01, 0.4), 4)
                            lo = _round(1 - rng.uniform(0.01, 0.4), 4)
                        elif kind < 0.75:  # inverted
                            hi = _round(1 - rng.uniform(0.01, 0.3), 4)
                            lo = _round(1 + rng.uniform(0.01, 0.3), 4)
                        elif kind < 0.9:  # one-sided (both above)
                            hi = _round(1 + rng.uniform(0.01, 0.3), 4)
                            lo = _round(1 + rng.uniform(0.01, 0.3), 4)
                        else:
                            hi = lo = 1.0
                    mods.append({"name": sn, "type": "normsys", "data": {"hi": hi, "lo": lo}})
                r2 = rng.random()
                if "histosys" in types and r2 < 0.4 and any(v > 0 for v in data):
                    hi_data, lo_data = [], []
                    same_side = (not wellposed) and rng.random() < 0.2
                    for v in data:
                        scale = 0.12 if wellposed else 0.35
                        du = rng.uniform(0.01, scale) * max(v, 1.0)
                        dd = rng.uniform(0.01, scale) * max(v, 1.0)
                        hi_data.append(_round(v + du, 4))
                        lo_data.append(_round(v + dd if same_side else max(v - dd, 0.0) if not wellposed else max(v - dd, 0.2), 4))
                    if not wellposed and rng.random() < 0.08:
                        hi_data, lo_data = list(data), list(data)
                    mods.append({"name": sn, "type": "histosys",
                                 "data": {"hi_data": hi_data, "lo_data": lo_data}})
            if "shapesys" in types and not is_sig and rng.random() < 0.3 and used_shapesys < 3 and take(nb):
                used_shapesys += 1
                unc = []
                for v in data:
                    u = _round(rng.uniform(0.03, 0.3) * max(v, 1.0), 4)
                    if not wellposed and rng.random() < 0.12:
                        u = 0.0
                    unc.append(u)
                mods.append({"name": f"shape_{s}_{c}", "type": "shapesys", "data": unc})
            if stat_name and s in stat_parts:
                unc = []
                for v in data:
                    u = _round(rng.uniform(0.02, 0.2) * max(v, 1.0), 4)
                    if not wellposed and rng.random() < 0.1:
                        u = 0.0
                    unc.append(u)
                mods.append({"name": stat_name, "type": "staterror", "data": unc})
            if "shapefactor" in types and not wellposed and not is_sig:
                if shapefactor_shared and s == shapefactor_shared[1] and widths[c] == widths[chan_names[0]]:
                    mods.append({"name": shapefactor_shared[0], "type": "shapefactor", "data": None})
                elif rng.random() < 0.12:
                    mods.append({"name": f"sf_{s}_{c}", "type": "shapefactor", "data": None})
            rng.shuffle(mods)
            samples.append({"name": s, "data": data, "modifiers": mods})
        channels.append({"name": c, "samples": samples})

    spec = {"channels": channels}
    info = {"poi": "mu", "lumi": any(m["type"] == "lumi" for ch in channels for s in ch["samples"] for m in s["modifiers"])}
    params = []
    if info["lumi"]:
        lumi0 = _round(rng.choice([1.0, 1.2, 0.85, 2.5]), 3)
        sig = _round(rng.uniform(0.01, 0.08) * lumi0, 5)
        params.append({"name": "lumi", "inits": [lumi0], "bounds": [[_round(0.3 * lumi0, 4), _round(3 * lumi0, 4)]],
                       "auxdata": [lumi0], "sigmas": [sig], "fixed": rng.random() < 0.2})
        info["lumi0"] = lumi0
        info["lumi_sigma"] = sig
    spec["parameters"] = params
    return spec, info


def spec_modifier_index(spec):
    """name -> {type -> list of (channel, sample, moddef)}; plain dict walk of the raw spec."""
    idx = {}
    for ch in spec["channels"]:
        for s in ch["samples"]:
            for m in s["modifiers"]:
                idx.setdefault(m["name"], {}).setdefault(m["type"], []).append((ch["name"], s["name"], m))
    return idx


def add_overrides(rng, spec, n_parameters, prob=0.5):
    """Add measurement-level overrides (inits/bounds/fixed/auxdata/sigmas/factors) for a
    random subset of parameters.  n_parameters: name -> component count (from the model's
    own report).  Returns the list of override dicts added (also appended to spec['parameters'])."""
    idx = spec_modifier_index(spec)
    have = {p["name"] for p in spec.get("parameters", [])}
    added = []
    for name, bytype in sorted(idx.items()):
        if name in have or rng.random() > prob:
            continue
        n = n_parameters[name]
        tset = set(bytype)
        ov = {"name": name}
        if tset <= {"normsys", "histosys"}:
            if rng.random() < 0.6:
                ov["inits"] = [_round(rng.uniform(-0.8, 0.8), 3)]
            if rng.random() < 0.5:
                ov["bounds"] = [[_round(rng.uniform(-7, -3), 2), _round(rng.uniform(3, 7), 2)]]
            if rng.random() < 0.5:
                ov["auxdata"] = [_round(rng.uniform(-0.7, 0.7), 3)]
            if rng.random() < 0.25:
                ov["fixed"] = rng.random() < 0.7
        elif tset == {"normfactor"}:
            if rng.random() < 0.6:
                ov["inits"] = [_round(rng.uniform(0.3, 2.0), 3)]
            if rng.random() < 0.5:
                ov["bounds"] = [[0.0 if name == "mu" else _round(rng.uniform(0.0, 0.2), 2), _round(rng.uniform(4, 12), 2)]]
            if name != "mu" and rng.random() < 0.2:
                ov["fixed"] = True
        elif tset == {"shapefactor"}:
            if rng.random() < 0.6:
                ov["inits"] = [_round(rng.uniform(0.5, 1.5), 3) for _ in range(n)]
            if rng.random() < 0.4:
                ov["bounds"] = [[_round(rng.uniform(0.0, 0.2), 2), _round(rng.uniform(5, 12), 2)] for _ in range(n)]
        elif tset == {"staterror"}:
            if rng.random() < 0.5:
                ov["inits"] = [_round(rng.uniform(0.8, 1.2), 3) for _ in range(n)]
            if rng.random() < 0.5:
                ov["auxdata"] = [_round(rng.uniform(0.85, 1.15), 4) for _ in range(n)]
            if rng.random() < 0.4:
                ov["sigmas"] = [_round(rng.uniform(0.02, 0.3), 4) for _ in range(n)]
            if rng.random() < 0.3:
                ov["bounds"] = [[_round(rng.uniform(1e-3, 0.3), 4), _round(rng.uniform(3, 9), 2)] for _ in range(n)]
            if rng.random() < 0.3:
                ov["fixed"] = rng.random() < 0.5  # an explicit False must release bins that are fixed by default
        elif tset == {"shapesys"}:
            if rng.random() < 0.5:
                ov["inits"] = [_round(rng.uniform(0.8, 1.2), 3) for _ in range(n)]
            if rng.random() < 0.5:
                ov["auxdata"] = [_round(rng.uniform(5, 200), 3) for _ in range(n)]
            if rng.random() < 0.4:
                ov["factors"] = [_round(rng.uniform(5, 200), 3) for _ in range(n)]
            if rng.random() < 0.3:
                ov["fixed"] = rng.random() < 0.5
        else:
            continue
        if len(ov) > 1:
            spec.setdefault("parameters", []).append(ov)
            added.append(ov)
    rng.shuffle(spec["parameters"])
    return added


def gen_point(rng, bounds, fixed=None, init=None, regime=None, names=None, alpha_like=None):
    """A parameter point inside the bounds.  alpha_like[i] True → component is an interpolation
    alpha and is drawn from a regime mixture (core, extrapolation, breakpoints and their
    floating-point neighbours)."""
    pt = []
    for i, (lo, hi) in enumerate(bounds):
        lo, hi = float(lo), float(hi)
        if alpha_like and alpha_like[i]:
            r = rng.random() if regime is None else regime
            if r < 0.30:
                v = rng.uniform(-0.99, 0.99)
            elif r < 0.50:
                v = rng.uniform(1.01, min(hi, 4.5))
            elif r < 0.70:
                v = rng.uniform(max(lo, -4.5), -1.01)
            elif r < 0.82:
                v = rng.choice([0.0, 1.0, -1.0])
            elif r < 0.94:
                base = rng.choice([0.0, 1.0, -1.0])
                v = math.nextafter(base, rng.choice([-math.inf, math.inf]))
            else:
                v = rng.choice([lo, hi])
            v = min(max(v, lo), hi)
        else:
            r = rng.random()
            if r < 0.07:
                v = lo
            elif r < 0.12:
                v = hi
            else:
                # concentrate around 1 for gamma-like / normfactor-like parameters
                centre = 1.0 if lo <= 1.0 <= hi else 0.5 * (lo + hi)
                width = min(centre - lo, hi - centre, 0.6)
                v = rng.uniform(centre - width, centre + width) if rng.random() < 0.8 else rng.uniform(lo, hi)
        pt.append(float(v))
    return pt


def poisson_draw(rng, lam):
    if lam <= 0:
        return 0
    if lam > 500:
        return max(0, int(round(rng.gauss(lam, math.sqrt(lam)))))
    L = math.exp(-lam)
    k, p = 0, 1.0
    while True:
        p *= rng.random()
        if p <= L:
            return k
        k += 1


def gen_maindata(rng, rates, kind=None):
    kind = kind or rng.choice(["poisson", "poisson", "asimov", "zeros", "noninteger", "large"])
    out = []
    for r in rates:
        r = max(float(r), 0.0)
        if kind == "poisson":
            out.append(float(poisson_draw(rng, r)))
        elif kind == "asimov":
            out.append(r)
        elif kind == "zeros":
            out.append(0.0 if rng.random() < 0.5 else float(poisson_draw(rng, r)))
        elif kind == "noninteger":
            out.append(_round(r * rng.uniform(0.6, 1.4) + 0.123, 4))
        else:
            out.append(float(poisson_draw(rng, r * 3)))
    return out, kind


def gen_workspace(rng, n_measurements=None, **kw):
    """A full workspace around gen_spec: observations (shuffled), 1-3 measurements."""
    spec, info = gen_spec(rng, **kw)
    obs = []
    for ch in spec["channels"]:
        nb = len(ch["samples"][0]["data"])
        tot = [sum(s["data"][b] for s in ch["samples"]) for b in range(nb)]
        obs.append({"name": ch["name"], "data": [float(poisson_draw(rng, t)) for t in tot]})
    rng.shuffle(obs)
    nm = n_measurements or rng.randint(1, 3)
    base_params = spec.pop("parameters")
    meas = []
    for i in range(nm):
        params = copy.deepcopy(base_params)
        if i > 0 and rng.random() < 0.7:
            params.append({"name": "mu", "bounds": [[0.0, _round(rng.uniform(5, 20), 1)]], "inits": [_round(rng.uniform(0.5, 1.5), 2)]})
        meas.append({"name": ["meas_main", "alt", "Third_1"][i], "config": {"poi": info["poi"], "parameters": params}})
    ws = {"channels": spec["channels"], "observations": obs, "measurements": meas, "version": "1.0.0"}
    return ws, info
