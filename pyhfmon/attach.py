"""Attachment of monitors to pyhf callables from outside the repository.

wrap_function(module, name, make_wrapper) replaces module.name by a wrapper and then performs
a *rebinding sweep*: every pyhf.* module in sys.modules is scanned and any attribute that IS the
original object is rebound to the wrapper (pyhf binds many callables early with
`from pyhf.infer.mle import fit`).
"""
import functools
import sys

_installed = {}


def rebinding_sweep(original, replacement):
    n = 0
    for mname, mod in list(sys.modules.items()):
        if mod is None or not (mname == "pyhf" or mname.startswith("pyhf.")):
            continue
        d = getattr(mod, "__dict__", None)
        if not d:
            continue
        for k, v in list(d.items()):
            if v is original:
                try:
                    setattr(mod, k, replacement)
                    n += 1
                except Exception:
                    pass
    return n


def wrap_function(module, name, hook):
    """hook(orig, args, kwargs) -> result.  Returns number of rebound references, or 0 if the
    attachment point does not exist (caller decides whether that is inconclusive)."""
    key = (module.__name__, name)
    if key in _installed:
        return _installed[key][1]
    orig = getattr(module, name, None)
    if orig is None:
        return 0

    @functools.wraps(orig)
    def wrapper(*args, **kwargs):
        return hook(orig, args, kwargs)

    wrapper._pyhfmon_original = orig
    n = rebinding_sweep(orig, wrapper)
    if getattr(module, name) is not wrapper:
        setattr(module, name, wrapper)
        n += 1
    _installed[key] = (orig, n)
    return n


def unwrap_all():
    for (mname, name), (orig, _) in list(_installed.items()):
        mod = sys.modules.get(mname)
        if mod is None:
            continue
        cur = getattr(mod, name, None)
        if cur is not None and cur is not orig:
            rebinding_sweep(cur, orig)
            setattr(mod, name, orig)
    _installed.clear()
