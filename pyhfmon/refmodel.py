"""A deliberately naive, loop-based reference HistFactory model.

Input: the *raw spec dict* (what the user wrote) plus the layout the pyhf model *reports*
through its public configuration (channels, channel_slices, par_slice(name),
param_set(name).n_parameters, auxdata_order).  Nothing of pyhf's mega-channel tensors,
masks or access fields is used.  Arithmetic is pluggable (float64 `math` or `mpmath`).
"""
import math

from . import refinterp


class FloatArith:
    name = "float64"
    pi = math.pi

    @staticmethod
    def num(x):
        return float(x)

    log = staticmethod(math.log)
    sqrt = staticmethod(math.sqrt)
    lgamma = staticmethod(math.lgamma)
    exp = staticmethod(math.exp)

    @staticmethod
    def fsum(xs):
        return math.fsum(xs)


class MpArith:
    name = "mpmath"

    def __init__(self, dps=50):
        import mpmath
        self.mp = mpmath.mp.clone()
        self.mp.dps = dps
        self.pi = self.mp.pi

    def num(self, x):
        return self.mp.mpf(x)

    def log(self, x):
        return self.mp.log(x)

    def sqrt(self, x):
        return self.mp.sqrt(x)

    def lgamma(self, x):
        return self.mp.loggamma(x)

    def exp(self, x):
        return self.mp.exp(x)

    def fsum(self, xs):
        return self.mp.fsum(xs)


FLOAT = FloatArith()


def log_poisson(A, n, lam):
    """log Pois(n | lam) continued through the Gamma function; returns (value, |terms|)."""
    n, lam = A.num(n), A.num(lam)
    if lam == 0:
        return (A.num(0.0), 0.0) if n == 0 else (-math.inf, math.inf)
    if lam < 0:
        return (math.nan, math.inf)
    t1 = n * A.log(lam) if n != 0 else A.num(0.0)
    t3 = A.lgamma(n + 1)
    return t1 - lam - t3, abs(t1) + abs(lam) + abs(t3)


def log_normal(A, x, mu, sigma):
    x, mu, sigma = A.num(x), A.num(mu), A.num(sigma)
    z = (x - mu) / sigma
    t1 = z * z / 2
    t2 = A.log(sigma)
    t3 = A.log(2 * A.pi) / 2
    return -t1 - t2 - t3, abs(t1) + abs(t2) + abs(t3)


class Layout:
    """The layout a pyhf model reports through its public config (and nothing else)."""

    def __init__(self, model):
        cfg = model.config
        self.channels = list(cfg.channels)
        self.channel_slices = {c: (cfg.channel_slices[c].start, cfg.channel_slices[c].stop) for c in self.channels}
        self.par_order = list(cfg.par_order)
        self.par_slice = {n: (cfg.par_slice(n).start, cfg.par_slice(n).stop) for n in self.par_order}
        self.n_parameters = {n: cfg.param_set(n).n_parameters for n in self.par_order}
        self.auxdata_order = list(cfg.auxdata_order)
        self.nmaindata = cfg.nmaindata
        self.nauxdata = cfg.nauxdata
        self.npars = cfg.npars
        self.samples = list(cfg.samples)
        self.fixed = list(cfg.suggested_fixed())
        self.poi_index = cfg.poi_index

    def aux_offsets(self):
        off, out = 0, {}
        for n in self.auxdata_order:
            out[n] = off
            off += self.n_parameters[n]
        return out


class RefModel:
    def __init__(self, spec, layout):
        self.spec = spec
        self.L = layout
        self.chan = {c["name"]: c for c in spec["channels"]}
        self.user = {p["name"]: p for p in spec.get("parameters", [])}
        # running index of bin-wise staterror components over the channels declaring the name,
        # in *reported* channel order
        self.stat_offset = {}
        for c in layout.channels:
            ch = self.chan[c]
            nb = len(ch["samples"][0]["data"])
            names = []
            for s in ch["samples"]:
                for m in s["modifiers"]:
                    if m["type"] == "staterror" and m["name"] not in names:
                        names.append(m["name"])
            for n in names:
                d = self.stat_offset.setdefault(n, {"_next": 0})
                d[c] = d["_next"]
                d["_next"] += nb

    # ------------------------------------------------------------------ rates (C01)
    def cells(self):
        """Yield (channel, sample dict, bin, global bin index)."""
        for c in self.L.channels:
            lo, hi = self.L.channel_slices[c]
            for s in self.chan[c]["samples"]:
                for b in range(hi - lo):
                    yield c, s, b, lo + b

    def rate_terms(self, pars, interp, codes):
        """Return dict (channel, sample, bin) -> (factors list, nominal, deltas list)."""
        out = {}
        for c, s, b, g in self.cells():
            factors, deltas = [], []
            nom = float(s["data"][b])
            for m in s["modifiers"]:
                t, n = m["type"], m["name"]
                p0 = self.L.par_slice[n][0]
                if t in ("normfactor", "lumi"):
                    factors.append(pars[p0])
                elif t == "normsys":
                    factors.append(interp(codes["normsys"], m["data"]["lo"], 1.0, m["data"]["hi"], pars[p0]))
                elif t == "histosys":
                    deltas.append(interp(codes["histosys"], m["data"]["lo_data"][b], nom, m["data"]["hi_data"][b], pars[p0]))
                elif t in ("shapesys", "shapefactor"):
                    factors.append(pars[p0 + b])
                elif t == "staterror":
                    factors.append(pars[p0 + self.stat_offset[n][c] + b])
                else:
                    raise ValueError(t)
            out[(c, s["name"], b)] = (factors, nom, deltas)
        return out

    def rates(self, pars, interp, codes, clip_sample=None, clip_bin=None):
        """Return (total[nmaindata], by_sample{name: [nmaindata]}, scale[nmaindata]).

        scale = magnitude of the terms entering each bin (cancellation-aware tolerance)."""
        terms = self.rate_terms(pars, interp, codes)
        nb = self.L.nmaindata
        total = [0.0] * nb
        scale = [0.0] * nb
        by_sample = {s: [0.0] * nb for s in self.L.samples}
        sscale = {s: [0.0] * nb for s in self.L.samples}
        for c, s, b, g in self.cells():
            factors, nom, deltas = terms[(c, s["name"], b)]
            f = 1.0
            for x in factors:
                f *= x
            v = f * (nom + math.fsum(deltas))
            sc = abs(f) * (abs(nom) + sum(abs(d) for d in deltas))
            if clip_sample is not None:
                v = max(v, clip_sample)
            by_sample[s["name"]][g] = v
            sscale[s["name"]][g] = sc
            total[g] += v
            scale[g] += sc
        if clip_sample is not None:
            # samples absent from a channel are zeros in pyhf's dense layout and get clipped too
            for sname in self.L.samples:
                for c in self.L.channels:
                    lo, hi = self.L.channel_slices[c]
                    if not any(s["name"] == sname for s in self.chan[c]["samples"]):
                        for g in range(lo, hi):
                            v = max(0.0, clip_sample)
                            by_sample[sname][g] = v
                            total[g] += v
        if clip_bin is not None:
            total = [max(v, clip_bin) for v in total]
        return total, by_sample, scale, sscale

    # ------------------------------------------------------------------ constraints (C02)
    def constraint_spec(self):
        """For every constrained parameter set in auxdata_order: list of component descriptors
        {'kind': 'normal'|'poisson', 'sigma'|'tau', 'degenerate': bool}, from the raw spec and
        the measurement-level overrides only."""
        out = {}
        # collect modifier declarations by name
        decl = {}
        for c in self.L.channels:
            for s in self.chan[c]["samples"]:
                for m in s["modifiers"]:
                    decl.setdefault(m["name"], []).append((c, s, m))
        for name in self.L.auxdata_order:
            types = {m["type"] for _, _, m in decl[name]}
            user = self.user.get(name, {})
            n = self.L.n_parameters[name]
            comps = []
            if types <= {"normsys", "histosys"}:
                comps = [{"kind": "normal", "sigma": 1.0, "degenerate": False}]
            elif types == {"lumi"}:
                comps = [{"kind": "normal", "sigma": float(user["sigmas"][0]), "degenerate": False}]
            elif types == {"staterror"}:
                # quadrature sum of the absolute uncertainties of the participating samples over
                # the sum of their nominal yields, per bin, in reported channel order
                for c in self.L.channels:
                    if c not in self.stat_offset.get(name, {}):
                        continue
                    parts = [(s, m) for cc, s, m in decl[name] if cc == c]
                    nbins = len(parts[0][0]["data"])
                    for b in range(nbins):
                        nomsum = math.fsum(float(s["data"][b]) for s, _ in parts)
                        unc2 = math.fsum(float(m["data"][b]) ** 2 for _, m in parts)
                        if nomsum > 0 and unc2 > 0:
                            comps.append({"kind": "normal", "sigma": math.sqrt(unc2) / nomsum, "degenerate": False})
                        else:
                            comps.append({"kind": "normal", "sigma": None, "degenerate": True})
                if "sigmas" in user:
                    for i, sg in enumerate(user["sigmas"]):
                        comps[i] = {"kind": "normal", "sigma": float(sg), "degenerate": False}
            elif types == {"shapesys"}:
                (c, s, m), = decl[name]
                for b in range(len(s["data"])):
                    nom, unc = float(s["data"][b]), float(m["data"][b])
                    if nom > 0 and unc > 0:
                        comps.append({"kind": "poisson", "tau": (nom / unc) ** 2, "degenerate": False})
                    else:
                        comps.append({"kind": "poisson", "tau": None, "degenerate": True})
                if "factors" in user:
                    for i, f in enumerate(user["factors"]):
                        comps[i] = {"kind": "poisson", "tau": float(f), "degenerate": False}
            else:
                raise ValueError(f"unexpected constrained types {types} for {name}")
            if len(comps) != n:
                raise ValueError(f"component count mismatch for {name}: spec says {len(comps)}, model reports {n}")
            out[name] = comps
        return out

    def constraint_logpdf(self, pars, auxdata, A=FLOAT, skip_degenerate=True):
        """Sum of the constraint terms; returns (value, scale, n_terms, n_degenerate)."""
        cs = self.constraint_spec()
        offs = self.L.aux_offsets()
        vals, scale, nt, nd = [], 0.0, 0, 0
        for name in self.L.auxdata_order:
            p0 = self.L.par_slice[name][0]
            for i, comp in enumerate(cs[name]):
                aux = auxdata[offs[name] + i]
                th = pars[p0 + i]
                if comp["degenerate"]:
                    nd += 1
                    if skip_degenerate:
                        continue
                    comp = dict(comp, sigma=1.0, tau=1.0)
                if comp["kind"] == "normal":
                    v, sc = log_normal(A, aux, th, comp["sigma"])
                else:
                    v, sc = log_poisson(A, aux, A.num(th) * A.num(comp["tau"]))
                vals.append(v)
                scale += float(sc)
                nt += 1
        return A.fsum(vals) if vals else A.num(0.0), scale, nt, nd

    def main_logpdf(self, rates, maindata, A=FLOAT):
        vals, scale = [], 0.0
        for n, lam in zip(maindata, rates):
            v, sc = log_poisson(A, n, lam)
            vals.append(v)
            scale += float(sc) if sc != math.inf else math.inf
        return A.fsum(vals), scale

    def expected_auxdata(self, pars):
        cs = self.constraint_spec()
        out = []
        for name in self.L.auxdata_order:
            p0 = self.L.par_slice[name][0]
            for i, comp in enumerate(cs[name]):
                if comp["kind"] == "normal":
                    out.append((pars[p0 + i], comp["degenerate"]))
                else:
                    out.append((pars[p0 + i] * (comp["tau"] if not comp["degenerate"] else 1.0), comp["degenerate"]))
        return out


class BlackBoxInterp:
    """Evaluate pyhf's own public interpolators cell by cell (C01 treats the interpolation
    formula as a black box; C03 decides the formula).  Two passes: record requests, then one
    vectorised call per code with one histogram set per request."""

    def __init__(self):
        self.requests = []
        self.values = None

    def record(self, code, lo, nom, hi, alpha):
        self.requests.append((str(code).replace("code", ""), float(lo), float(nom), float(hi), float(alpha)))
        return 1.0

    def resolve(self):
        import pyhf
        from .props.c03 import to_np

        tb = pyhf.tensorlib
        self.values = {}
        bycode = {}
        for r in self.requests:
            bycode.setdefault(r[0], set()).add(r[1:])
        for code, reqs in bycode.items():
            reqs = sorted(reqs)
            key = int(code) if code.isdigit() else code
            hists = [[[[lo], [nom], [hi]]] for lo, nom, hi, _ in reqs]
            alphas = [[a] for *_, a in reqs]
            res = to_np(pyhf.interpolators.get(key)(hists, subscribe=False)(tb.astensor(alphas)))
            for i, r in enumerate(reqs):
                self.values[(code,) + r] = float(res[i, 0, 0, 0])

    def lookup(self, code, lo, nom, hi, alpha):
        return self.values[(str(code).replace("code", ""), float(lo), float(nom), float(hi), float(alpha))]


def ref_interp(code, lo, nom, hi, alpha):
    return refinterp.interp(code, lo, nom, hi, alpha)
