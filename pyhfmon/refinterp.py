"""Independent reference implementation of the HistFactory interpolation codes.

Nothing here is copied from pyhf: the piecewise definitions are written from the published
formulae (CERN-OPEN-2012-016 / RooFit PiecewiseInterpolation + FlexibleInterpVar), and the
polynomial coefficients of codes 4 and 4p are obtained by *solving* the boundary-condition
system (value, first and second derivative matched at the breakpoints) rather than by typing
an inverse matrix.

Additive codes (0, 2, 4p) return the shift delta(alpha); multiplicative codes (1, 4) return
the factor.  `terms` variants also return the magnitude of the summed terms, used to set
cancellation-aware tolerances.
"""
import functools
import math

import mpmath

ADDITIVE = {"0": True, "1": False, "2": True, "4": False, "4p": True}


def _norm(code):
    return str(code).replace("code", "")


# ---------------------------------------------------------------- coefficient solvers
@functools.lru_cache(maxsize=200000)
def code4_coefficients(r_dn, r_up, alpha0=1.0):
    """a_1..a_6 of f(a) = 1 + sum a_i a^i with f, f', f'' matching r_up^a at +alpha0 and
    r_dn^(-a) at -alpha0.  Solved in 40-digit arithmetic, returned as floats."""
    mp = mpmath.mp
    with mp.workdps(40):
        a0 = mp.mpf(alpha0)
        ru, rd = mp.mpf(r_up), mp.mpf(r_dn)
        lu, ld = mp.log(ru), mp.log(rd)
        rows, rhs = [], []
        for sgn, base_val, d1, d2 in (
            (+1, ru ** a0, lu * ru ** a0, lu ** 2 * ru ** a0),
            (-1, rd ** a0, -ld * rd ** a0, ld ** 2 * rd ** a0),
        ):
            x = sgn * a0
            rows.append([x ** i for i in range(1, 7)])
            rhs.append(base_val - 1)
            rows.append([i * x ** (i - 1) for i in range(1, 7)])
            rhs.append(d1)
            rows.append([i * (i - 1) * x ** (i - 2) if i >= 2 else mp.mpf(0) for i in range(1, 7)])
            rhs.append(d2)
        sol = mp.lu_solve(mp.matrix(rows), mp.matrix(rhs))
        return tuple(float(sol[i]) for i in range(6))


@functools.lru_cache(maxsize=200000)
def code4p_coefficients(d_up, d_dn):
    """c_1..c_6 of f(a) = sum c_i a^i on [-1, 1] joining the lines d_up*a (a>1) and d_dn*a (a<-1)
    with continuous value, slope and curvature (d_up = up-nom, d_dn = nom-down)."""
    mp = mpmath.mp
    with mp.workdps(40):
        du, dd = mp.mpf(d_up), mp.mpf(d_dn)
        rows, rhs = [], []
        for x, val, d1 in ((mp.mpf(1), du, du), (mp.mpf(-1), -dd, dd)):
            rows.append([x ** i for i in range(1, 7)])
            rhs.append(val)
            rows.append([i * x ** (i - 1) for i in range(1, 7)])
            rhs.append(d1)
            rows.append([i * (i - 1) * x ** (i - 2) if i >= 2 else mp.mpf(0) for i in range(1, 7)])
            rhs.append(mp.mpf(0))
        sol = mp.lu_solve(mp.matrix(rows), mp.matrix(rhs))
        return tuple(float(sol[i]) for i in range(6))


# ---------------------------------------------------------------- the five codes
def interp_terms(code, down, nom, up, alpha, alpha0=1.0):
    """Return (value, scale): value of the code at alpha and the magnitude of the terms summed."""
    code = _norm(code)
    a = float(alpha)
    if code == "0":
        v = a * (up - nom) if a >= 0 else a * (nom - down)
        return v, abs(a) * (abs(up) + abs(nom) + abs(down))
    if code == "1":
        if a >= 0:
            v = math.pow(up / nom, a)
        else:
            v = math.pow(down / nom, -a)
        return v, abs(v)
    if code == "2":
        qa = 0.5 * (up + down) - nom
        qb = 0.5 * (up - down)
        sc = (abs(up) + abs(down) + abs(nom)) * (1 + abs(a)) ** 2
        if a > 1:
            return (qb + 2 * qa) * (a - 1) + (qa + qb), sc
        if a < -1:
            return (qb - 2 * qa) * (a + 1) + (qa - qb), sc
        return qa * a * a + qb * a, sc
    if code == "4":
        ru, rd = up / nom, down / nom
        if a >= alpha0:
            v = math.pow(ru, a)
            return v, abs(v)
        if a <= -alpha0:
            v = math.pow(rd, -a)
            return v, abs(v)
        cs = code4_coefficients(rd, ru, alpha0)
        terms = [cs[i] * a ** (i + 1) for i in range(6)]
        return 1.0 + math.fsum(terms), 1.0 + sum(abs(t) for t in terms)
    if code == "4p":
        du, dd = up - nom, nom - down
        sc = (abs(up) + abs(down) + abs(nom)) * (1 + abs(a))
        if a > 1:
            return du * a, sc
        if a < -1:
            return dd * a, sc
        cs = code4p_coefficients(du, dd)
        terms = [cs[i] * a ** (i + 1) for i in range(6)]
        return math.fsum(terms), sc + sum(abs(t) for t in terms)
    raise ValueError(code)


def interp(code, down, nom, up, alpha, alpha0=1.0):
    return interp_terms(code, down, nom, up, alpha, alpha0)[0]


def neutral(code):
    return 0.0 if ADDITIVE[_norm(code)] else 1.0


def breakpoints(code, alpha0=1.0):
    code = _norm(code)
    if code in ("0", "1"):
        return [0.0]
    if code == "4":
        return [-alpha0, alpha0]
    return [-1.0, 1.0]


def smooth_order(code):
    """continuity class at the breakpoints: 0 = continuous only, 1 = C1, 2 = C2."""
    code = _norm(code)
    return {"0": 0, "1": 0, "2": 1, "4": 2, "4p": 2}[code]


# ---------------------------------------------------------------- oracle self-check (mpmath)
def selfcheck(n=40, seed=1):
    """Verify in high precision that the reference has the properties the statement lists:
    neutral at 0, up/down at +-1, continuity (and C1/C2 where claimed) at the breakpoints.
    Returns the number of identities checked; raises AssertionError if the oracle is wrong."""
    import random

    rng = random.Random(seed)
    checked = 0
    for _ in range(n):
        nom = rng.uniform(1, 100)
        up = nom * rng.uniform(0.3, 2.5)
        down = nom * rng.uniform(0.3, 2.5)
        for code in ("0", "1", "2", "4", "4p"):
            add = ADDITIVE[code]
            f = lambda x: interp(code, down, nom, up, x)
            tol = 1e-9 * (abs(up) + abs(down) + abs(nom))
            assert abs(f(0.0) - neutral(code)) <= tol
            tu = (up - nom) if add else up / nom
            td = (down - nom) if add else down / nom
            assert abs(f(1.0) - tu) <= tol * 10, (code, f(1.0), tu)
            assert abs(f(-1.0) - td) <= tol * 10, (code, f(-1.0), td)
            checked += 3
            for bp in breakpoints(code):
                h = 1e-7
                assert abs(f(bp + h) - f(bp - h)) <= 1e-5 * (abs(up) + abs(down) + abs(nom)), (code, bp)
                checked += 1
                if smooth_order(code) >= 1:
                    hh = 1e-4
                    dl = (f(bp) - f(bp - hh)) / hh
                    dr = (f(bp + hh) - f(bp)) / hh
                    assert abs(dl - dr) <= 2e-2 * (abs(dl) + abs(dr) + abs(up - nom) + abs(nom - down) + 1e-3), (code, bp, dl, dr)
                    checked += 1
    return checked
