"""pyhfmon: runtime monitors for the pyhf properties C01..C20 (see /verif/DESIGN.md)."""
import os
import sys

VERIF = os.path.dirname(os.path.dirname(os.path.abspath(__file__)))
_deps = os.path.join(VERIF, ".deps")
if os.path.isdir(_deps) and _deps not in sys.path:
    # appended (not prepended): the contract libraries must never shadow /venv's packages
    sys.path.append(_deps)
