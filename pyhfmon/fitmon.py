"""Passive postcondition monitor on every maximum-likelihood fit (C05 a-c).

Installed on pyhf.infer.mle.fit and fixed_poi_fit with a rebinding sweep, so every nested fit made
by test statistics, Asimov generation, toys and limit scans is checked: the returned point lies
within the supplied bounds, fixed parameters (and the fixed POI) sit exactly at their supplied
values, and the reported objective equals twice the negative log-likelihood at the returned point.
"""
import math

from . import attach


def to_list(t):
    import numpy as np
    if hasattr(t, "detach"):
        t = t.detach()
    if hasattr(t, "numpy"):
        try:
            t = t.numpy()
        except Exception:
            pass
    return np.asarray(t, dtype=float)


class FitMonitor:
    def __init__(self, shard, prefix="C05", context=None):
        self.shard = shard
        self.prefix = prefix
        self.context = context or {}
        self.depth = 0
        self.nfits = 0

    # ------------------------------------------------------------------ hooks
    def fit_hook(self, orig, args, kwargs):
        import pyhf

        names = ["data", "pdf", "init_pars", "par_bounds", "fixed_params"]
        bound = dict(zip(names, args))
        extra = {k: v for k, v in kwargs.items() if k not in names}
        bound.update({k: v for k, v in kwargs.items() if k in names})
        want_val = extra.pop("return_fitted_val", False)
        want_obj = extra.pop("return_result_obj", False)
        want_corr = extra.get("return_correlations", False)
        want_unc = extra.get("return_uncertainties", False)
        self.depth += 1
        try:
            res = orig(bound["data"], bound["pdf"], bound.get("init_pars"), bound.get("par_bounds"), bound.get("fixed_params"),
                       return_fitted_val=True, return_result_obj=True, **extra)
        finally:
            self.depth -= 1
        res = list(res)
        x = res[0]
        obj = res[-1]
        fun = res[-2]
        try:
            self.judge(bound, extra, x, fun, obj, want_unc)
        except Exception as e:  # the monitor must never break the workload
            self.shard.skip(f"fit monitor error: {type(e).__name__}: {str(e)[:80]}")
        out = [x]
        if want_corr:
            out.append(res[1])
        if want_val:
            out.append(fun)
        if want_obj:
            out.append(obj)
        return tuple(out) if len(out) > 1 else out[0]

    def fixed_poi_hook(self, orig, args, kwargs):
        poi_val = args[0] if args else kwargs.get("poi_val")
        pdf = args[2] if len(args) > 2 else kwargs.get("pdf")
        res = orig(*args, **kwargs)
        try:
            x = res[0] if isinstance(res, tuple) else res
            xv = to_list(x)
            if xv.ndim == 2:
                xv = xv[:, 0]
            i = pdf.config.poi_index
            if float(xv[i]) != float(poi_val):
                self.shard.violate(f"{self.prefix}/fixed-poi-moved", f"fixed_poi_fit({poi_val!r}) returned POI {float(xv[i])!r}", dict(self.context, poi_val=float(poi_val)), "fit_fixed_poi")
            else:
                self.shard.ok("fit_fixed_poi")
        except Exception as e:
            self.shard.skip(f"fit monitor error: {type(e).__name__}")
        return res

    # ------------------------------------------------------------------ postconditions
    def judge(self, bound, extra, x, fun, obj, want_unc):
        import pyhf

        pdf, data = bound["pdf"], bound["data"]
        cfg = pdf.config
        init = bound.get("init_pars") or cfg.suggested_init()
        bnds = bound.get("par_bounds") or cfg.suggested_bounds()
        fixed = bound.get("fixed_params") or cfg.suggested_fixed()
        xv = to_list(x)
        if xv.ndim == 2:
            xv = xv[:, 0]
        self.nfits += 1
        opt = pyhf.optimizer.name
        tb = pyhf.tensorlib.name
        ctx = dict(self.context, optimizer=opt, backend=tb, do_stitch=extra.get("do_stitch", False), do_grad=extra.get("do_grad"),
                   init=[float(v) for v in init], bounds=[[float(a), float(b)] for a, b in bnds], fixed=[bool(f) for f in fixed],
                   x=[float(v) for v in xv], data=[float(v) for v in to_list(data)])
        label = f"optimizer={opt} backend={tb} do_stitch={extra.get('do_stitch', False)} do_grad={extra.get('do_grad')}"
        # (a) bounds
        worst = 0.0
        for i, (v, (lo, hi)) in enumerate(zip(xv, bnds)):
            exc = max(lo - v, v - hi, 0.0)
            allow = 1e-12 * (hi - lo + 1)
            worst = max(worst, exc)
            if not exc <= allow:
                self.shard.violate(f"{self.prefix}/outside-bounds", f"parameter {i} = {float(v)!r} outside [{lo}, {hi}] by {exc:.3g}; {label}", ctx, "fit_bounds")
                break
        else:
            self.shard.ok("fit_bounds")
        self.shard.maximum("largest_bound_excess", worst)
        # (b) fixed parameters exact
        moved = [(i, float(init[i]), float(xv[i])) for i, f in enumerate(fixed) if f and float(xv[i]) != float(init[i])]
        if moved:
            self.shard.violate(f"{self.prefix}/fixed-parameter-moved", f"fixed parameters moved (index, supplied, returned): {moved[:4]}; {label}", ctx, "fit_fixed")
        else:
            self.shard.ok("fit_fixed")
        if any(fixed):
            self.shard.covered("fits_with_fixed_parameters", "yes")
        # (c) honest objective
        f_rep = float(to_list(fun).reshape(-1)[0])
        f_at = float(to_list(-2 * pdf.logpdf(pyhf.tensorlib.astensor([float(v) for v in xv]), data)).reshape(-1)[0])
        if not abs(f_rep - f_at) <= 1e-8 * (abs(f_at) + 1):
            self.shard.violate(f"{self.prefix}/objective-mismatch", f"reported objective {f_rep!r} but 2NLL at the returned point is {f_at!r}; {label}", ctx, "fit_objective")
        else:
            self.shard.ok("fit_objective")
        self.shard.covered("fit_configurations", f"{opt}/{tb}/stitch={extra.get('do_stitch', False)}/grad={extra.get('do_grad')}")
        self.last = dict(x=xv, fun=f_at, reported=f_rep, ctx=ctx)


def install(shard, prefix="C05", context=None):
    import pyhf
    import pyhf.infer.mle as mle
    import pyhf.infer.test_statistics  # noqa: make sure early bindings exist before the sweep
    import pyhf.infer.calculators  # noqa
    import pyhf.infer.intervals.upper_limits  # noqa

    attach.unwrap_all()
    mon = FitMonitor(shard, prefix, context)
    n1 = attach.wrap_function(mle, "fit", mon.fit_hook)
    n2 = attach.wrap_function(mle, "fixed_poi_fit", mon.fixed_poi_hook)
    shard.counters["fit_monitor_rebound_references"] += n1 + n2
    if n1 == 0:
        shard.inconclusive_because("attachment point pyhf.infer.mle.fit not found")
    return mon
