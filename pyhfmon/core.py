"""Verdict plumbing shared by every property driver.

A *shard* is one subprocess worth of workload.  Its monitors report into a ``Shard``
object: oracle evaluations, distinct non-trivial case signatures, samples, coverage
sets, skipped-by-reason counters and violations (each labelled with a *mechanism*, the
key used by known_findings.json).  The parent merges shards, writes the evidence file
and prints the VIOLATION / KNOWN-FINDING / INCONCLUSIVE lines.
"""
import collections
import hashlib
import json
import math
import os
import sys
import time

from . import VERIF

MAX_SAMPLES = 5
MAX_VIOLATIONS_KEPT = 40


def jsonable(x):
    """Best-effort conversion of tensors / numpy scalars / tuples into JSON data."""
    if x is None or isinstance(x, (bool, int, str)):
        return x
    if isinstance(x, float):
        if math.isnan(x):
            return "nan"
        if math.isinf(x):
            return "inf" if x > 0 else "-inf"
        return x
    if isinstance(x, dict):
        return {str(k): jsonable(v) for k, v in x.items()}
    if isinstance(x, (list, tuple, set, frozenset)):
        return [jsonable(v) for v in x]
    if isinstance(x, slice):
        return [x.start, x.stop]
    for attr in ("tolist",):
        if hasattr(x, attr):
            try:
                return jsonable(x.tolist())
            except Exception:
                pass
    if hasattr(x, "numpy"):
        try:
            return jsonable(x.numpy().tolist())
        except Exception:
            pass
    try:
        return float(x)
    except Exception:
        return repr(x)[:200]


def digest(obj):
    return hashlib.sha1(
        json.dumps(jsonable(obj), sort_keys=True, default=repr).encode()
    ).hexdigest()[:16]


class Shard:
    def __init__(self, pid, tier, seed, index=0, params=None):
        self.pid = pid
        self.tier = tier
        self.seed = seed
        self.index = index
        self.params = params or {}
        self.evaluations = 0
        self.counters = collections.Counter()
        self.skipped = collections.Counter()
        self.signatures = set()
        self.samples = []
        self.cover = collections.defaultdict(set)
        self.violations = []
        self.nviolations = 0
        self.maxima = {}
        self.notes = []
        self.inconclusive = []
        self.t0 = time.time()

    # ---- reporting API used by monitors -------------------------------------------
    def ok(self, monitor, n=1):
        """n oracle evaluations performed by `monitor` that held."""
        self.evaluations += n
        self.counters[monitor] += n

    def skip(self, reason, n=1):
        self.skipped[reason] += n

    def nontrivial(self, *sigparts):
        self.signatures.add(digest(sigparts))

    def sample(self, case):
        if len(self.samples) < MAX_SAMPLES:
            self.samples.append(jsonable(case))

    def covered(self, key, value):
        self.cover[key].add(str(value))

    def maximum(self, key, value):
        try:
            value = float(value)
        except Exception:
            return
        if not math.isnan(value) and value > self.maxima.get(key, -math.inf):
            self.maxima[key] = value

    def violate(self, mechanism, detail, case, monitor=None):
        """Record a property violation.  `mechanism` keys the known-findings file."""
        self.evaluations += 1
        if monitor:
            self.counters[monitor] += 1
        self.counters["violations"] += 1
        self.nviolations += 1
        per_mech = sum(1 for v in self.violations if v["mechanism"] == mechanism)
        if per_mech < 3 and len(self.violations) < MAX_VIOLATIONS_KEPT:
            self.violations.append(
                {
                    "mechanism": mechanism,
                    "detail": str(detail)[:2000],
                    "case": jsonable(case),
                }
            )
        else:
            self.counters["violations_not_kept"] += 1
            # still remember that the mechanism occurred
            self.cover["violated_mechanisms"].add(mechanism)
        self.cover["violated_mechanisms"].add(mechanism)

    def inconclusive_because(self, reason):
        self.inconclusive.append(reason)

    def dump(self, path):
        out = {
            "pid": self.pid,
            "index": self.index,
            "params": jsonable(self.params),
            "evaluations": self.evaluations,
            "counters": dict(self.counters),
            "skipped": dict(self.skipped),
            "signatures": sorted(self.signatures),
            "samples": self.samples,
            "cover": {k: sorted(v) for k, v in self.cover.items()},
            "violations": self.violations,
            "nviolations": self.nviolations,
            "maxima": self.maxima,
            "notes": self.notes,
            "inconclusive": self.inconclusive,
            "wall_s": time.time() - self.t0,
        }
        tmp = path + ".tmp"
        with open(tmp, "w") as f:
            json.dump(out, f)
        os.replace(tmp, path)


def load_known_findings():
    path = os.path.join(VERIF, "known_findings.json")
    try:
        with open(path) as f:
            data = json.load(f)
    except FileNotFoundError:
        return []
    return data.get("findings", [])


def merge_and_report(pid, tier, seed, level, rule, shard_files, crashed, t0, assumptions,
                     required_counters=(), extra=None, anchors=None):
    """Merge shard outputs, write evidence/<pid>.json, print verdict lines, return exit code."""
    evaluations = 0
    counters = collections.Counter()
    skipped = collections.Counter()
    signatures = set()
    samples = []
    cover = collections.defaultdict(set)
    violations = []
    nviol = 0
    maxima = {}
    inconclusive = list(crashed)
    notes = []
    reach = collections.Counter()
    for sf in shard_files:
        try:
            with open(sf) as f:
                d = json.load(f)
        except Exception as e:  # shard died before dumping
            inconclusive.append(f"shard output unreadable: {os.path.basename(sf)}: {e}")
            continue
        evaluations += d["evaluations"]
        counters.update(d["counters"])
        skipped.update(d["skipped"])
        signatures.update(d["signatures"])
        for s in d["samples"]:
            if len(samples) < MAX_SAMPLES:
                samples.append(s)
        for k, v in d["cover"].items():
            cover[k].update(v)
        violations.extend(d["violations"])
        nviol += d["nviolations"]
        for k, v in d["maxima"].items():
            if v > maxima.get(k, -math.inf):
                maxima[k] = v
        inconclusive.extend(d["inconclusive"])
        notes.extend(d.get("notes", []))

    known = [k for k in load_known_findings() if k.get("property") == pid]
    known_open = {k["mechanism"]: k for k in known if k.get("status", "known") == "known"}

    exit_code = 0
    lines = []
    seen_known = {}
    new_violations = []
    for v in violations:
        if v["mechanism"] in known_open:
            seen_known.setdefault(v["mechanism"], v)
        else:
            new_violations.append(v)
    # mechanisms that occurred but whose witnesses were not kept
    for mech in cover.get("violated_mechanisms", ()):
        if mech in known_open:
            seen_known.setdefault(mech, None)
        elif not any(v["mechanism"] == mech for v in new_violations):
            new_violations.append({"mechanism": mech, "detail": "witness not kept", "case": None})

    for mech in sorted(seen_known):
        lines.append(f"KNOWN-FINDING: property={pid} {mech}: {known_open[mech]['what_fails']}")

    if new_violations:
        exit_code = 1
        rdir = os.path.join(VERIF, "replays", pid)
        os.makedirs(rdir, exist_ok=True)
        emitted = set()
        for v in new_violations:
            key = digest([v["mechanism"], v["case"]])
            if key in emitted:
                continue
            emitted.add(key)
            rpath = os.path.join(rdir, f"{key}.json")
            with open(rpath, "w") as f:
                json.dump({"property": pid, "tier": tier, "seed": seed, **v}, f, indent=1)
            lines.append(f"VIOLATION property={pid} replay={rpath}")
            lines.append(f"  mechanism={v['mechanism']} detail={v['detail'][:400]}")

    distinct = len(signatures)
    missing = [c for c in required_counters if counters.get(c, 0) == 0]
    if missing:
        inconclusive.append("deciding monitors never reached: " + ",".join(missing))
    if exit_code == 0 and (evaluations == 0 or distinct < 2):
        inconclusive.append(f"too few observations (evaluations={evaluations}, distinct_nontrivial={distinct})")
    if exit_code == 0 and inconclusive:
        exit_code = 2
        for r in inconclusive[:10]:
            lines.append(f"INCONCLUSIVE property={pid} reason={r}")

    reach = {}
    for k in list(cover):
        if k.startswith("reach:"):
            fn = k[len("reach:"):]
            fns = sorted(q for q in cover.pop(k) if "<" not in q.split(".")[-1])
            if anchors is None or any(fn.endswith(a) or a.endswith(fn) for a in anchors):
                reach[fn] = fns
    coverage = {
        "evaluations": int(evaluations),
        "distinct_nontrivial": int(distinct),
        "rule": rule,
        "samples": samples if samples else [{"note": "no sample recorded"}],
        "exhaustive": False,
        "monitor_counters": dict(counters),
        "skipped_by_reason": dict(skipped),
        "covered": {k: sorted(v) for k, v in cover.items()},
        "largest_observed": maxima,
        "known_findings_seen": sorted(seen_known),
        "new_violation_mechanisms": sorted({v["mechanism"] for v in new_violations}),
        "inconclusive_reasons": inconclusive[:20],
        "shards": len(shard_files),
        "reach_functions_in_anchor_files": {k: len(v) for k, v in sorted(reach.items())},
        "reach_function_names": {k: v[:40] for k, v in sorted(reach.items())},
        "verdict": {0: "held on what was observed", 1: "violated", 2: "inconclusive"}[exit_code],
    }
    if extra:
        coverage.update(extra)
    if notes:
        coverage["notes"] = notes[:20]
    evidence = {
        "property_id": pid,
        "tier": tier,
        "seed": int(seed),
        "level": level,
        "coverage": coverage,
        "assumptions": list(assumptions),
        "wall_s": round(time.time() - t0, 2),
        "violations": int(len(new_violations)),
    }
    os.makedirs(os.path.join(VERIF, "evidence"), exist_ok=True)
    epath = os.path.join(VERIF, "evidence", f"{pid}.json")
    with open(epath + ".tmp", "w") as f:
        json.dump(evidence, f, indent=1, sort_keys=True)
    os.replace(epath + ".tmp", epath)

    for ln in lines:
        print(ln)
    print(
        f"{pid} tier={tier} seed={seed}: {coverage['verdict']}; evaluations={evaluations} "
        f"distinct_nontrivial={distinct} shards={len(shard_files)} wall={evidence['wall_s']}s"
    )
    sys.stdout.flush()
    return exit_code
