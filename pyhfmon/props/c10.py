"""C10 — batched evaluation equals row-by-row evaluation.

Paired-execution monitor: the same spec is built with batch_size=N and unbatched; N pairwise
distinct parameter vectors and datasets are pushed through both, and every row of the batched
result must equal what the unbatched model returns for that row alone.
"""
import copy
import math
import random

from .. import gen
from ..refmodel import Layout
from . import c01
from .c03 import to_np

LEVEL = "exploration"
RULE = (
    "Structural generator x batch sizes 1..8 x pairwise-distinct rows (every parameter and every datum differs between "
    "rows) x backend x lower clipping options (40% of the cases: per sample, per bin or both, at zero or at a threshold placed "
    "among the rates of the rows); observables: expected_data, expected_actualdata, by-sample rates, logpdf, mainlogpdf, "
    "constraint_logpdf, pdf, sampled-data shape. A case = (model, N, rows); non-trivial when N>=2, rows distinct in every "
    "component and the spec has a bin-wise modifier in a channel that is not the first; distinct by (shape signature, N, backend)."
)
ASSUMPTIONS = [
    "oracle = the unbatched model on each row (same backend); tolerance 1e-12 relative in 64-bit (clean code is bit-identical), 1e-5 in 32-bit; log-densities (and densities, relatively) get in addition 8 eps x the summed magnitude of the Poisson terms n ln(lambda), lambda, lnGamma(n+1) of the row (float32 noise on a 4600-event bin is 3e-3 absolute on the log-density)",
    "batch sizes above 8 are not explored",
]
REQUIRED = ("expected_rows", "logpdf_rows", "sample_shape")


def check_case(case, shard):
    import pyhf
    import numpy as np

    tb = pyhf.tensorlib
    rel = 1e-12 if case["precision"] == "64b" else 1e-5
    spec = case["spec"]
    N = case["batch"]
    kw = dict(poi_name="mu", modifier_settings=case["settings"])
    single = pyhf.Model(copy.deepcopy(spec), **kw)  # (rebuilt below with the clipping options once the rows are known)
    L = Layout(single)
    rng = random.Random(case["seed"])
    flags = c01.alpha_flags(spec, L)
    bounds = single.config.suggested_bounds()
    aux0 = list(single.config.auxdata)
    rows_p, rows_d = [], []
    for r in range(N):
        while True:
            p = gen.gen_point(rng, bounds, alpha_like=flags)
            # pairwise distinct in every component (bounds hits may collide: nudge)
            for i in range(len(p)):
                lo, hi = bounds[i]
                while any(abs(p[i] - q[i]) < 1e-9 for q in rows_p):
                    p[i] = min(max(p[i] + rng.uniform(-0.05, 0.05) * (hi - lo), lo), hi)
            break
        rows_p.append(p)
        rates = [max(float(x), 0.5) for x in to_np(single.expected_actualdata(tb.astensor(p)))]
        main = [float(gen.poisson_draw(rng, x)) + 0.25 * r + 0.01 * g for g, x in enumerate(rates)]
        aux = [float(a) * (1 + 0.03 * (r + 1)) + 0.011 * (r + 1) for a in aux0]
        rows_d.append(main + aux)
    # lower clipping of the rates is a model option: thresholds are placed among the rates the rows really produce, so that
    # some rows are clipped and others are not
    mode = case.get("clipmode")
    if mode:
        by = to_np(single.main_model.expected_data(tb.astensor(rows_p[0]), return_by_sample=True)).reshape(len(L.samples), L.nmaindata)
        pick = random.Random(case["seed"] + 1)
        b = pick.randrange(L.nmaindata)
        f = case.get("clipfactor", 1.0)
        if mode in ("sample0", "both0"):
            kw["clip_sample_data"] = 0.0
        if mode in ("bin0", "both0"):
            kw["clip_bin_data"] = 0.0
        if mode in ("sample+", "both+"):
            kw["clip_sample_data"] = float(abs(by[pick.randrange(len(L.samples)), b]) * f + 0.01)
        if mode in ("bin+", "both+"):
            kw["clip_bin_data"] = float(abs(by[:, b].sum()) * f + 0.01)
        plain = single
        single = pyhf.Model(copy.deepcopy(spec), **kw)
        active = sum(1 for r in range(N) if not np.array_equal(to_np(single.expected_actualdata(tb.astensor(rows_p[r]))), to_np(plain.expected_actualdata(tb.astensor(rows_p[r])))))
        shard.covered("clipping", f"{mode}: " + ("no row clipped" if active == 0 else ("every row clipped" if active == N else "some rows clipped, some not")))
    batched = pyhf.Model(copy.deepcopy(spec), batch_size=N, **kw)
    tp, td = tb.astensor(rows_p), tb.astensor(rows_d)

    # a log-density is a sum of terms n ln(lambda) - lambda - lnGamma(n+1) that are individually much larger than the
    # result: its rounding error scales with their magnitude (row 4608 events: terms of 4e4, float32 noise 3e-3), not
    # with the result.  Per-row magnitude of the main terms, from the unbatched model's own rates:
    eps = 2.220446049250313e-16 if case["precision"] == "64b" else 1.1920929e-07
    term_scale = []
    for r_ in range(N):
        lam = [max(float(x), 1e-30) for x in to_np(single.expected_actualdata(tb.astensor(rows_p[r_])))]
        term_scale.append(sum(abs(n * math.log(l)) + l + math.lgamma(n + 1) for n, l in zip(rows_d[r_][: L.nmaindata], lam)))

    def close(a, b, is_density=False, row=None, is_log=False):
        a, b = np.asarray(a, dtype=float), np.asarray(b, dtype=float)
        if a.shape != b.shape:
            return False
        both_bad = ~np.isfinite(a) & ~np.isfinite(b)
        r = rel
        if is_log and row is not None:
            return bool(np.all((np.abs(a - b) <= r * (np.abs(a) + np.abs(b)) + 8 * eps * term_scale[row]) | both_bad | (a == b)))
        if is_density:
            # a density is exp(log-density): its relative error is the absolute error of the log
            with np.errstate(all="ignore"):
                r = rel * (1 + np.abs(np.log(np.abs(a) + 1e-300))) * 4 + (8 * eps * term_scale[row] if row is not None else 0.0)
        ok = np.abs(a - b) <= r * (np.abs(a) + np.abs(b)) + (1e-300 if case["precision"] == "64b" else 2e-37)
        return bool(np.all(ok | both_bad | (a == b)))

    ctx = f"backend={case['backend']}-{case['precision']} N={N} settings={case['settings']}" + (f" clip={ {k: v for k, v in kw.items() if k.startswith('clip')} }" if mode else "")
    observables = [
        ("expected_data", lambda m, p, d: m.expected_data(p), (N, L.nmaindata + L.nauxdata), "expected_rows"),
        ("expected_actualdata", lambda m, p, d: m.expected_actualdata(p), (N, L.nmaindata), "expected_rows"),
        ("by_sample", lambda m, p, d: m.main_model.expected_data(p, return_by_sample=True), (N, len(L.samples), L.nmaindata), "expected_rows"),
        ("logpdf", lambda m, p, d: m.logpdf(p, d), (N,), "logpdf_rows"),
        ("pdf", lambda m, p, d: m.pdf(p, d), (N,), "logpdf_rows"),
        ("mainlogpdf", lambda m, p, d: m.mainlogpdf(d[..., : L.nmaindata], p), (N,), "logpdf_rows"),
    ]
    if L.nauxdata:
        observables.append(("constraint_logpdf", lambda m, p, d: m.constraint_logpdf(d[..., L.nmaindata:], p), (N,), "logpdf_rows"))
        observables.append(("expected_auxdata", lambda m, p, d: m.expected_auxdata(p), (N, L.nauxdata), "expected_rows"))
    for name, fn, shape, mon in observables:
        try:
            gb = to_np(fn(batched, tp, td))
        except Exception as e:
            shard.violate(f"C10/{name}-raised", f"batched {name} raised {type(e).__name__}: {str(e)[:200]}; {ctx}", case, mon)
            continue
        if tuple(gb.shape) != shape:
            shard.violate(f"C10/{name}-shape", f"batched {name} has shape {gb.shape}, expected {shape}; {ctx}", case, mon)
            continue
        for r in range(N):
            pr, dr = tb.astensor(rows_p[r]), tb.astensor(rows_d[r])
            gs = to_np(fn(single, pr, dr))
            gs = gs.reshape(gb[r].shape) if gs.size == gb[r].size else gs
            if not close(gb[r], gs, is_density=(name == 'pdf'), row=r, is_log=name in ("logpdf", "mainlogpdf")):
                shard.violate(f"C10/{name}-row-mismatch", f"row {r} of batched {name} = {np.asarray(gb[r]).ravel()[:6].tolist()} but unbatched gives {np.asarray(gs).ravel()[:6].tolist()}; {ctx}", dict(case, rows_p=rows_p, rows_d=rows_d), mon)
                break
            shard.ok(mon)
    # sampled-data shape
    positive = all(float(x) > 0 for r in range(N) for x in to_np(single.expected_data(tb.astensor(rows_p[r]))))
    if not positive:
        shard.skip("sampling skipped: a rate or constraint mean is not positive (out of domain)")
    for shp in ([(), (3,), (2, 2)] if positive else []):
        try:
            sb = to_np(batched.make_pdf(tp).sample(shp))
            ss = to_np(single.make_pdf(tb.astensor(rows_p[0])).sample(shp))
        except Exception as e:
            shard.violate("C10/sample-raised", f"sample({shp}) raised {type(e).__name__}: {str(e)[:200]}; {ctx}", case, "sample_shape")
            continue
        nd = L.nmaindata + L.nauxdata
        if tuple(sb.shape) != shp + (N, nd) or tuple(ss.shape) != shp + (nd,):
            shard.violate("C10/sample-shape", f"sample({shp}) shapes batched {sb.shape} (want {shp + (N, nd)}), unbatched {ss.shape} (want {shp + (nd,)}); {ctx}", case, "sample_shape")
        else:
            shard.ok("sample_shape")
    # non-triviality
    first = L.channels[0]
    binwise_late = any(m["type"] in ("shapesys", "staterror", "shapefactor") for c in spec["channels"] if c["name"] != first for s in c["samples"] for m in s["modifiers"])
    if N >= 2 and binwise_late:
        shard.nontrivial(c01.shape_signature(spec), N, case["backend"], case["precision"], case["settings"])
    shard.covered("batch_sizes", N)
    for t in {m["type"] for c in spec["channels"] for s in c["samples"] for m in s["modifiers"]}:
        shard.covered("modifier_types", t)


def build_case(rng, backend, precision):
    case = c01.build_case(rng, backend, precision)
    case["clip_sample"] = case["clip_bin"] = None
    case["overrides"] = False
    case["batch"] = rng.randint(1, 8)
    if rng.random() < 0.4:
        case["clipmode"] = rng.choice(["sample0", "bin0", "both0", "sample+", "bin+", "bin+", "both+"])
        case["clipfactor"] = round(rng.uniform(0.6, 1.3), 3)
    return case


def plan(tier, seed):
    if tier == "quick":
        layout = [("numpy", "64b", 16)] * 7 + [("jax", "64b", 5)] * 3 + [("pytorch", "64b", 10)] * 2 + [("tensorflow", "64b", 6)] * 2 + [("numpy", "32b", 8), ("pytorch", "32b", 6)]
    else:
        layout = [("numpy", "64b", 450)] * 6 + [("jax", "64b", 90)] * 3 + [("pytorch", "64b", 250)] * 2 + [("tensorflow", "64b", 150)] * 3 + [("numpy", "32b", 200), ("pytorch", "32b", 150)]
    return [{"backend": b, "precision": p, "n": n, "seed": seed * 32452843 + i} for i, (b, p, n) in enumerate(layout)]


def run_shard(shard):
    import logging
    logging.disable(logging.CRITICAL)
    import pyhf

    p = shard.params
    pyhf.set_backend(p["backend"], precision=p["precision"])
    shard.covered("backends", f"{p['backend']}-{p['precision']}")
    rng = random.Random(p["seed"])
    for k in range(p["n"]):
        case = build_case(rng, p["backend"], p["precision"])
        check_case(case, shard)
        if k == 0 and shard.index in (0, 7):
            shard.sample({k2: v for k2, v in case.items() if not k2.startswith("_")})


def replay(rec, shard):
    import logging
    logging.disable(logging.CRITICAL)
    import pyhf

    case = rec["case"]
    pyhf.set_backend(case["backend"], precision=case.get("precision", "64b"))
    case.pop("rows_p", None)
    case.pop("rows_d", None)
    check_case(case, shard)
