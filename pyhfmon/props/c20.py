"""C20 — structurally inconsistent specifications are refused, never partly evaluated.

Outcome classifier on pyhf.Model(spec) (and Workspace(spec).model()) for schema-valid specs
carrying an injected structural fault.  The only acceptable outcome is an exception whose
class is defined in pyhf.exceptions; 'accepted', AssertionError, TypeError, KeyError, ... are
violations.  Control: the unfaulted parent must be accepted.
"""
import copy
import random

from .. import gen

LEVEL = "fault_enumeration"
RULE = (
    "Parents from the structural generator (accepted by pyhf: control); every fault class of the statement injected at "
    "EVERY applicable position of each parent (exhaustive per parent), plus pairs of faults including compensating "
    "pairs (histosys/staterror data lengths and a sample's own length +1/-1 across channels). A case = (parent, fault class, position); non-trivial when the "
    "faulted spec is schema-valid and its parent is accepted; distinct by (fault class, position kind, parent shape)."
)
ASSUMPTIONS = [
    "the JSON schema shipped with pyhf decides 'schema-valid'; faulted specs that fail the schema are skipped and counted",
    "exhaustive over positions within each parent, sampled over parents",
    "acceptable outcome = exception class defined in module pyhf.exceptions",
]
REQUIRED = ("control_accepted", "fault_refused_or_flagged")


# ---------------------------------------------------------------- fault injectors
# each returns a list of (position label, faulted spec, poi_name) for every applicable position
def _cs(spec):
    for ci, c in enumerate(spec["channels"]):
        for si, s in enumerate(c["samples"]):
            yield ci, c, si, s


def f_dup_channel(spec, rng):
    out = []
    for ci, c in enumerate(spec["channels"]):
        for cj, d in enumerate(spec["channels"]):
            if ci == cj:
                continue
            s2 = copy.deepcopy(spec)
            s2["channels"][cj]["name"] = c["name"]
            out.append((f"channel[{cj}]:=name of channel[{ci}]", s2))
        s2 = copy.deepcopy(spec)
        dup = copy.deepcopy(c)
        for s in dup["samples"]:
            s["data"] = [round(v * 1.5 + 1, 3) for v in s["data"]]
            s["modifiers"] = [m for m in s["modifiers"] if m["type"] not in ("shapesys",)]
            for m in s["modifiers"]:
                if m["type"] == "histosys":
                    m["data"] = {"hi_data": [round(v * 1.1, 3) for v in s["data"]], "lo_data": [round(v * 0.9, 3) for v in s["data"]]}
                if m["type"] == "staterror":
                    m["data"] = [round(0.1 * v, 3) for v in s["data"]]
        s2["channels"].insert(rng.randrange(len(s2["channels"]) + 1), dup)
        out.append((f"copy of channel[{ci}] with different yields", s2))
    return out


def f_dup_sample(spec, rng):
    out = []
    for ci, c, si, s in _cs(spec):
        s2 = copy.deepcopy(spec)
        dup = {"name": s["name"], "data": [round(v * 0.5 + 2, 3) for v in s["data"]], "modifiers": []}
        s2["channels"][ci]["samples"].insert(rng.randrange(len(c["samples"]) + 1), dup)
        out.append((f"channel[{ci}] second sample named {s['name']}", s2))
    return out


def f_dup_modifier(spec, rng):
    out = []
    for ci, c, si, s in _cs(spec):
        for mi, m in enumerate(s["modifiers"]):
            if m["type"] in ("normfactor", "lumi", "shapefactor"):
                continue  # no data to differ
            s2 = copy.deepcopy(spec)
            dup = copy.deepcopy(m)
            if m["type"] == "normsys":
                dup["data"] = {"hi": round(m["data"]["hi"] + 0.11, 4), "lo": round(m["data"]["lo"] - 0.07, 4)}
            elif m["type"] == "histosys":
                dup["data"] = {"hi_data": [round(v * 1.2 + 1, 3) for v in m["data"]["hi_data"]], "lo_data": [round(v * 0.7, 3) for v in m["data"]["lo_data"]]}
            else:
                dup["data"] = [round(v * 1.3 + 0.5, 3) for v in m["data"]]
            pos = rng.randrange(len(s["modifiers"]) + 1)
            s2["channels"][ci]["samples"][si]["modifiers"].insert(pos, dup)
            out.append((f"{m['type']}/{m['name']} twice on {c['name']}/{s['name']}", s2))
    return out


def f_sample_length(spec, rng):
    out = []
    for ci, c, si, s in _cs(spec):
        for delta in (+1, -1):
            if len(s["data"]) + delta < 1:
                continue
            if len(c["samples"]) == 1 and not s["modifiers"]:
                continue  # a lone sample defines the width: nothing inconsistent
            s2 = copy.deepcopy(spec)
            d = s2["channels"][ci]["samples"][si]["data"]
            if delta > 0:
                d.append(7.5)
            else:
                d.pop()
            # keep it a *sample-length* fault only when something else fixes the width
            others = [x for j, x in enumerate(c["samples"]) if j != si]
            binwise = [m for m in s["modifiers"] if m["type"] in ("histosys", "shapesys", "staterror")]
            if not others and not binwise:
                continue
            out.append((f"{c['name']}/{s['name']} data length {delta:+d}", s2))
    return out


def _f_moddata_length(mtype):
    def f(spec, rng):
        out = []
        for ci, c, si, s in _cs(spec):
            for mi, m in enumerate(s["modifiers"]):
                if m["type"] != mtype:
                    continue
                for delta in (+1, -1):
                    s2 = copy.deepcopy(spec)
                    md = s2["channels"][ci]["samples"][si]["modifiers"][mi]["data"]
                    lists = [md["hi_data"], md["lo_data"]] if mtype == "histosys" else [md]
                    if len(lists[0]) + delta < 1:
                        continue
                    for l in lists:
                        if delta > 0:
                            l.append(3.25)
                        else:
                            l.pop()
                    out.append((f"{mtype}/{m['name']} on {c['name']}/{s['name']} data length {delta:+d}", s2))
                if mtype == "histosys":
                    s2 = copy.deepcopy(spec)
                    s2["channels"][ci]["samples"][si]["modifiers"][mi]["data"]["hi_data"].append(3.25)
                    out.append((f"histosys/{m['name']} on {c['name']}/{s['name']} hi_data only +1", s2))
        return out
    return f


def f_histosys_compensating(spec, rng):
    """+1 in one channel and -1 in another for the same (sample, name): the concatenated lengths agree."""
    out = []
    places = {}
    for ci, c, si, s in _cs(spec):
        for mi, m in enumerate(s["modifiers"]):
            if m["type"] in ("histosys", "staterror"):
                places.setdefault((s["name"], m["name"], m["type"]), []).append((ci, si, mi))
    for key, pl in places.items():
        for a in range(len(pl)):
            for b in range(len(pl)):
                if a == b:
                    continue
                (ci, si, mi), (cj, sj, mj) = pl[a], pl[b]
                s2 = copy.deepcopy(spec)
                da = s2["channels"][ci]["samples"][si]["modifiers"][mi]["data"]
                db = s2["channels"][cj]["samples"][sj]["modifiers"][mj]["data"]
                if key[2] == "staterror":
                    if len(db) < 2:
                        continue
                    da.append(0.75)
                    db.pop()
                else:
                    if len(db["hi_data"]) < 2:
                        continue
                    da["hi_data"].append(4.5)
                    da["lo_data"].append(3.5)
                    db["hi_data"].pop()
                    db["lo_data"].pop()
                out.append((f"{key[2]}/{key[1]} on sample {key[0]}: +1 in channel[{ci}], -1 in channel[{cj}]", s2))
                if key[2] == "histosys":
                    # the same, on one template only (the other template keeps the right length everywhere)
                    for tmpl in ("hi_data", "lo_data"):
                        s3 = copy.deepcopy(spec)
                        ea = s3["channels"][ci]["samples"][si]["modifiers"][mi]["data"]
                        eb = s3["channels"][cj]["samples"][sj]["modifiers"][mj]["data"]
                        ea[tmpl].append(4.5)
                        eb[tmpl].pop()
                        out.append((f"histosys/{key[1]} on sample {key[0]}: {tmpl} only +1 in channel[{ci}], -1 in channel[{cj}]", s3))
    return out


def f_sample_compensating(spec, rng):
    """A sample one bin too long in one channel and one bin too short in another (its own bin-wise modifier data resized
    with it): the sample's concatenated length over all channels is right, each channel is inconsistent with its other samples."""
    out = []
    places = {}
    for ci, c, si, s in _cs(spec):
        if len(c["samples"]) >= 2:
            places.setdefault(s["name"], []).append((ci, si))

    def resize(smp, delta):
        lists = [smp["data"]]
        for m in smp["modifiers"]:
            if m["type"] == "histosys":
                lists += [m["data"]["hi_data"], m["data"]["lo_data"]]
            elif m["type"] in ("shapesys", "staterror"):
                lists.append(m["data"])
        for l in lists:
            if delta > 0:
                l.append(round(l[-1] * 1.1 + 0.5, 3))
            else:
                l.pop()

    for name, pl in places.items():
        for a in range(len(pl)):
            for b in range(len(pl)):
                if a == b:
                    continue
                (ci, si), (cj, sj) = pl[a], pl[b]
                if len(spec["channels"][cj]["samples"][sj]["data"]) < 2:
                    continue
                s2 = copy.deepcopy(spec)
                resize(s2["channels"][ci]["samples"][si], +1)
                resize(s2["channels"][cj]["samples"][sj], -1)
                out.append((f"sample {name}: one bin more in channel[{ci}] (sample[{si}]), one bin less in channel[{cj}] (sample[{sj}])", s2))
    return out


def f_binwise_shared_width(spec, rng):
    """A bin-wise modifier shared between places with different bin counts."""
    out = []
    widths = {c["name"]: len(c["samples"][0]["data"]) for c in spec["channels"]}
    chans = spec["channels"]
    for ci, c in enumerate(chans):
        for cj, d in enumerate(chans):
            if ci == cj or widths[c["name"]] == widths[d["name"]]:
                continue
            for kind in ("shapefactor", "staterror", "shapesys"):
                s2 = copy.deepcopy(spec)
                sa = s2["channels"][ci]["samples"][-1]
                sb = s2["channels"][cj]["samples"][0]
                if kind == "staterror" and sa["name"] == sb["name"]:
                    # one sample carrying one staterror name in two channels is legitimate
                    # (one gamma per bin of both channels): not a fault
                    continue
                for smp, ch in ((sa, c), (sb, d)):
                    smp["modifiers"] = [m for m in smp["modifiers"] if m["type"] != kind]
                    nb = widths[ch["name"]]
                    data = None if kind == "shapefactor" else [round(0.1 * max(v, 1.0), 3) for v in smp["data"]]
                    smp["modifiers"].append({"name": "shared_binwise", "type": kind, "data": data})
                out.append((f"{kind} 'shared_binwise' on channel[{ci}] ({widths[c['name']]} bins) and channel[{cj}] ({widths[d['name']]} bins)", s2, None, kind))
    return out


def f_conflicting_types(spec, rng):
    out = []
    combos = [("normsys", "normfactor"), ("histosys", "shapefactor"), ("normsys", "staterror"), ("histosys", "shapesys"), ("normfactor", "shapefactor"), ("normsys", "shapesys")]

    def mk(t, smp):
        if t == "normsys":
            return {"hi": 1.1, "lo": 0.9}
        if t == "histosys":
            return {"hi_data": [round(v * 1.1 + 0.1, 3) for v in smp["data"]], "lo_data": [round(v * 0.9, 3) for v in smp["data"]]}
        if t in ("staterror", "shapesys"):
            return [round(0.1 * max(v, 1.0), 3) for v in smp["data"]]
        return None

    cells = list(_cs(spec))
    for t1, t2 in combos:
        for (ci, c, si, s) in cells[:3]:
            for (cj, d, sj, u) in cells[-2:]:
                if (ci, si) == (cj, sj):
                    continue
                s2 = copy.deepcopy(spec)
                a = s2["channels"][ci]["samples"][si]
                b = s2["channels"][cj]["samples"][sj]
                a["modifiers"].append({"name": "clash", "type": t1, "data": mk(t1, a)})
                b["modifiers"].append({"name": "clash", "type": t2, "data": mk(t2, b)})
                out.append((f"'clash' as {t1} on {c['name']}/{s['name']} and {t2} on {d['name']}/{u['name']}", s2, None, f"{t1}+{t2}"))
    return out


def f_override_length(spec, rng, npar=None):
    out = []
    idx = gen.spec_modifier_index(spec)
    for name, bt in sorted(idx.items()):
        tset = set(bt)
        n = npar[name]
        keys = ["inits", "bounds"]
        if tset <= {"normsys", "histosys"}:
            keys += ["auxdata"]
        elif tset == {"staterror"}:
            keys += ["auxdata", "sigmas"]
        elif tset == {"shapesys"}:
            keys += ["auxdata", "factors"]
        elif tset == {"lumi"}:
            keys += ["auxdata", "sigmas"]
        for key in keys:
            for delta in (+1, -1):
                m = n + delta
                if m < 1:
                    continue
                s2 = copy.deepcopy(spec)
                params = s2.setdefault("parameters", [])
                ov = next((p for p in params if p["name"] == name), None)
                if ov is None:
                    ov = {"name": name}
                    params.append(ov)
                if key == "bounds":
                    ov[key] = [[0.1, 9.0]] * m if not (tset <= {"normsys", "histosys"}) else [[-4.0, 4.0]] * m
                else:
                    base = {"inits": 1.0 if not (tset <= {"normsys", "histosys"}) else 0.1, "auxdata": 1.0, "sigmas": 0.1, "factors": 25.0}[key]
                    ov[key] = [base + 0.01 * i for i in range(m)]
                out.append((f"override {key} of {sorted(tset)[0]}/{name} with {m} values for {n} components", s2, None, f"{sorted(tset)[0]}:{key}"))
    return out


def f_undefined_poi(spec, rng):
    return [("poi_name not declared in the spec", copy.deepcopy(spec), "not_a_parameter")]


def f_lumi_no_settings(spec, rng):
    out = []
    for ci, c, si, s in _cs(spec):
        if any(m["type"] == "lumi" for m in s["modifiers"]):
            continue
        s2 = copy.deepcopy(spec)
        s2["parameters"] = [p for p in s2.get("parameters", []) if p["name"] != "lumi"]
        for ch in s2["channels"]:
            for smp in ch["samples"]:
                smp["modifiers"] = [m for m in smp["modifiers"] if m["type"] != "lumi"]
        s2["channels"][ci]["samples"][si]["modifiers"].append({"name": "lumi", "type": "lumi", "data": None})
        out.append((f"lumi on {c['name']}/{s['name']} without lumi parameter settings", s2))
        # (partly configured lumi settings are not in the statement's list and are not judged)
    return out


FAULTS = {
    "duplicate-channel-name": f_dup_channel,
    "duplicate-sample-name": f_dup_sample,
    "duplicate-modifier": f_dup_modifier,
    "sample-data-length": f_sample_length,
    "histosys-data-length": _f_moddata_length("histosys"),
    "shapesys-data-length": _f_moddata_length("shapesys"),
    "staterror-data-length": _f_moddata_length("staterror"),
    "compensating-data-lengths": f_histosys_compensating,
    "compensating-sample-lengths": f_sample_compensating,
    "binwise-shared-different-width": f_binwise_shared_width,
    "conflicting-constraint-types": f_conflicting_types,
    "override-wrong-length": f_override_length,
    "undefined-poi": f_undefined_poi,
    "lumi-without-settings": f_lumi_no_settings,
}


def classify(spec, poi, via_workspace=False):
    """Return (outcome, detail): 'pyhf-exception' | 'accepted' | '<ExceptionName>' | 'schema-invalid'."""
    import pyhf
    from pyhf import exceptions as E

    try:
        pyhf.schema.validate(spec, "model.json")
    except E.InvalidSpecification as e:
        return "schema-invalid", str(e)[:100]
    try:
        if via_workspace:
            ws = {"channels": spec["channels"], "version": "1.0.0",
                  "observations": [{"name": c["name"], "data": [1.0] * len(c["samples"][0]["data"])} for c in spec["channels"]],
                  "measurements": [{"name": "m", "config": {"poi": poi, "parameters": spec.get("parameters", [])}}]}
            pyhf.Workspace(ws).model()
        else:
            pyhf.Model(spec, poi_name=poi)
    except Exception as e:  # noqa
        if type(e).__module__ == "pyhf.exceptions":
            return "pyhf-exception", f"{type(e).__name__}: {str(e)[:120]}"
        return type(e).__name__, str(e)[:160]
    return "accepted", ""


def inject(name, spec, rng, npar):
    fn = FAULTS[name]
    res = fn(spec, rng, npar) if name == "override-wrong-length" else fn(spec, rng)
    out = []
    for item in res:
        label, s2 = item[0], item[1]
        poi = item[2] if len(item) > 2 and item[2] else "mu"
        sub = item[3] if len(item) > 3 else None
        out.append((label, s2, poi, sub))
    return out


def check_parent(seed, shard, max_positions=None):
    import pyhf

    rng = random.Random(seed)
    spec, info = gen.gen_spec(rng, profile="structural", max_channels=3, max_samples=3, max_bins=4)
    if rng.random() < 0.35:
        # one MC-statistics modifier carried by the SAME sample in several channels (one name, one sample): the carrier the
        # compensating staterror length faults need, rare in the plain generator
        byname = {}
        for c in spec["channels"]:
            for s_ in c["samples"]:
                byname.setdefault(s_["name"], []).append(s_)
        multi = sorted(n for n, lst in byname.items() if len(lst) >= 2 and not any(m["type"] == "staterror" for s_ in lst for m in s_["modifiers"]))
        if multi:
            n = rng.choice(multi)
            for s_ in byname[n]:
                s_["modifiers"].append({"name": "mcstat_shared", "type": "staterror", "data": [gen._round(0.08 * abs(v) + 0.3, 3) for v in s_["data"]]})
    outcome, detail = classify(spec, "mu")
    if outcome != "pyhf-exception" and outcome != "accepted":
        shard.skip(f"parent raised {outcome}")
        return
    if outcome != "accepted":
        shard.violate("C20/control-rejected", f"unfaulted parent refused: {detail}", {"spec": spec}, "control_accepted")
        return
    shard.ok("control_accepted")
    model = pyhf.Model(spec, poi_name="mu")
    npar = {k: model.config.param_set(k).n_parameters for k in model.config.par_order}
    shape = tuple(sorted((len(c["samples"][0]["data"]), len(c["samples"])) for c in spec["channels"]))
    faulted = []
    for name in FAULTS:
        items = inject(name, spec, rng, npar)
        if max_positions and len(items) > max_positions:
            items = rng.sample(items, max_positions)
        for label, s2, poi, sub in items:
            faulted.append((name, label, s2, poi, sub))
            judge(name, sub, label, s2, poi, shard, shape, rng.random() < 0.25)
    # pairs of faults: compose two injectors
    for _ in range(6):
        a, b = rng.sample(sorted(FAULTS), 2)
        if "undefined-poi" in (a, b):
            continue
        length_faults = {"sample-data-length", "histosys-data-length", "shapesys-data-length", "staterror-data-length"}
        if a in length_faults and b in length_faults:
            # two length faults can neutralise each other (a lone sample shortened together with its own modifier data
            # is a consistent, narrower channel): only the dedicated compensating class composes length faults
            continue
        ia = inject(a, spec, rng, npar)
        if not ia:
            continue
        la, sa, poi, _ = ia[rng.randrange(len(ia))]
        try:
            ib = inject(b, sa, rng, npar)
        except Exception:
            continue
        if not ib:
            continue
        lb, sab, poi, _ = ib[rng.randrange(len(ib))]
        judge(f"pair", None, f"[{a}] {la} + [{b}] {lb}", sab, poi, shard, shape, False, pair=(a, b))


def judge(name, sub, label, spec, poi, shard, shape, via_ws, pair=None):
    outcome, detail = classify(spec, poi, via_workspace=via_ws)
    if outcome == "schema-invalid":
        shard.skip("faulted spec fails the JSON schema")
        return
    case = {"fault": name, "sub": sub, "position": label, "spec": spec, "poi": poi, "via_workspace": via_ws, "pair": pair}
    shard.covered("fault_classes", name)
    if outcome == "pyhf-exception":
        shard.ok("fault_refused_or_flagged")
        shard.covered("refusals", f"{name}: {detail.split(':')[0]}")
    else:
        key = name if not pair else "pair:" + "+".join(sorted(pair))
        kind = "accepted" if outcome == "accepted" else f"raised-{outcome}"
        mech = f"C20/{key}" + (f"[{sub}]" if sub and name in ("binwise-shared-different-width", "override-wrong-length", "lumi-without-settings") else "") + f":{kind}"
        shard.violate(mech, f"{label}: outcome {outcome} {detail}", case, "fault_refused_or_flagged")
    poskind = label.split(" ")[0]
    shard.nontrivial(name, sub, poskind, shape, pair)


def plan(tier, seed):
    n = 64 if tier == "quick" else 1600
    nsh = 16
    per = n // nsh
    return [{"start": seed * 7368787 + i * per, "count": per} for i in range(nsh)]


def run_shard(shard):
    import logging
    logging.disable(logging.CRITICAL)
    p = shard.params
    for k in range(p["count"]):
        check_parent(p["start"] + k, shard)
    if shard.index == 0:
        rng = random.Random(p["start"])
        spec, _ = gen.gen_spec(rng, profile="structural", max_channels=3, max_samples=3, max_bins=4)
        items = f_dup_sample(spec, rng)[:1] + f_histosys_compensating(spec, rng)[:1]
        for it in items:
            shard.sample({"position": it[0], "faulted_spec": it[1]})
        if not items:
            shard.sample({"parent": spec})


def extra_coverage(tier):
    return {"exhaustive_scope": "every applicable position of every fault class within each generated parent; parents are sampled"}


def replay(rec, shard):
    import logging
    logging.disable(logging.CRITICAL)
    c = rec["case"]
    judge(c["fault"], c.get("sub"), c["position"], c["spec"], c["poi"], shard, (), c.get("via_workspace", False), pair=tuple(c["pair"]) if c.get("pair") else None)
