"""C04 — probability primitives equal the exact Poisson / Normal functions on every backend.

Boundary monitor on tensorlib.poisson_logpdf / poisson / normal_logpdf / normal / normal_cdf and
on pyhf.probability.Poisson / Normal / Independent.log_prob.  Oracle: mpmath at 50 digits on the
inputs *as rounded to the backend precision*; error budget in units of rounding of the terms.
"""
import math
import random

import mpmath

from .c03 import to_np

LEVEL = "exploration"
RULE = (
    "Directed argument generator: counts n in {0, 1, integers and reals up to 1e8}, rates in {0, subnormals, 1e-300..1e8}, "
    "Normal arguments with |x-mu| and sigma over 20 decades, standard-normal CDF arguments from -38 to +38 (and with mu, sigma), "
    "scalar and broadcast shapes, x {numpy, jax, pytorch, tensorflow} x {64b, 32b}. A case = one argument tuple on one "
    "backend/precision; non-trivial when it is in a tail (|z|>8 or |x|>8 for the CDF), has a non-integer count, a rate below 1e-3 "
    "or above 1e4; distinct by rounded-argument signature x primitive x backend."
)
ASSUMPTIONS = [
    "yardstick K=16 units of rounding of the terms: Poisson log-mass K*eps*(|n ln lam| + lam + |lnGamma(n+1)| + 1); Normal log-density "
    "K*eps*(|ln(sigma sqrt(2pi))| + z^2/2 + 1); Phi(x) relative K*eps*(1 + x^2/2) plus absolute floor K*min_normal; non-log variants: "
    "relative error = absolute budget of the log variant",
    "reference evaluated by mpmath (50 digits) on the inputs as rounded to the backend precision",
    "third-party special functions are part of pyhf's observable behaviour: a defect there is reported with the backend named",
]
REQUIRED = ("poisson_logpdf", "normal_logpdf", "normal_cdf", "poisson", "normal", "dist_log_prob")

K = 16.0
mp = mpmath.mp.clone()
mp.dps = 50


def eps_of(precision):
    return 2.220446049250313e-16 if precision == "64b" else 1.1920929e-07


def min_normal(precision):
    return 2.2250738585072014e-308 if precision == "64b" else 1.1754944e-38


def ref_poisson_log(n, lam):
    n, lam = mp.mpf(n), mp.mpf(lam)
    if lam == 0:
        return (mp.mpf(0), 1.0) if n == 0 else (-mp.inf, math.inf)
    t1 = n * mp.log(lam) if n != 0 else mp.mpf(0)
    t3 = mp.loggamma(n + 1)
    return t1 - lam - t3, float(abs(t1) + lam + abs(t3) + 1)


def ref_normal_log(x, mu, sigma):
    x, mu, sigma = mp.mpf(x), mp.mpf(mu), mp.mpf(sigma)
    z = (x - mu) / sigma
    t2 = mp.log(sigma * mp.sqrt(2 * mp.pi))
    return -z * z / 2 - t2, float(z * z / 2 + abs(t2) + 1)


def ref_cdf(x, mu=0.0, sigma=1.0):
    z = (mp.mpf(x) - mp.mpf(mu)) / mp.mpf(sigma)
    return mp.erfc(-z / mp.sqrt(2)) / 2, float(1 + z * z / 2)


def gen_poisson_args(rng, precision):
    big = 1e8 if precision == "64b" else 1e6
    r = rng.random()
    if r < 0.15:
        n = float(rng.choice([0, 1, 2, 5]))
    elif r < 0.45:
        n = float(rng.randint(0, 300))
    elif r < 0.6:
        n = float(int(10 ** rng.uniform(2, math.log10(big))))
    elif r < 0.85:
        n = rng.uniform(0, 200)
    else:
        n = 10 ** rng.uniform(-3, math.log10(big))
    r = rng.random()
    tiny = 1e-300 if precision == "64b" else 1e-37
    sub = (rng.choice([5e-324, 1e-320, 1e-310, 2e-308]) if precision == "64b" else rng.choice([1e-45, 1e-42, 5e-39]))
    if r < 0.06:
        lam = 0.0
    elif r < 0.12:
        lam = sub
    elif r < 0.25:
        lam = 10 ** rng.uniform(math.log10(tiny), -3)
    elif r < 0.7:
        lam = max(n * rng.uniform(0.3, 2.5), 10 ** rng.uniform(-3, 1)) if n > 0 else 10 ** rng.uniform(-3, 2)
    else:
        lam = 10 ** rng.uniform(-3, math.log10(big))
    return n, lam


def gen_normal_args(rng, precision):
    dec = 20 if precision == "64b" else 10
    sigma = 10 ** rng.uniform(-dec / 2, dec / 2)
    mu = rng.choice([0.0, 1.0, rng.uniform(-5, 5), 10 ** rng.uniform(-dec / 2, dec / 2) * rng.choice([-1, 1])])
    zmax = 38 if precision == "64b" else 12
    # fits really visit |z| of several hundred (a gamma at its bound against a 3% constraint gave |z| = 327)
    zfar = 400 if precision == "64b" else 100
    z = rng.choice([rng.uniform(-3, 3), rng.uniform(-zmax, zmax), 0.0, 10 ** rng.uniform(-8, 1), rng.uniform(-zfar, zfar)])
    x = mu + z * sigma
    return x, mu, sigma


def gen_cdf_arg(rng, precision):
    zmax = 38.0
    r = rng.random()
    if r < 0.4:
        return rng.uniform(-zmax, zmax)
    if r < 0.6:
        return rng.uniform(-6, 6)
    if r < 0.8:
        return -rng.uniform(30, zmax)
    return rng.choice([0.0, -37.0, -37.5, -38.0, 8.0, 8.3, 37.9, -1e-10, 1e-300])


def check_tuple(kind, args, backend, precision, shard, broadcast=False):
    import pyhf
    import numpy as np

    tb = pyhf.tensorlib
    eps = eps_of(precision)
    floor = K * min_normal(precision)
    tens = [tb.astensor([a, a] if broadcast and i == 0 else [a]) for i, a in enumerate(args)]
    rounded = [float(np.asarray(to_np(t), dtype=np.float64).ravel()[0]) for t in tens]
    bp = f"{backend}-{precision}"
    case = {"kind": kind, "args": list(args), "rounded": rounded, "backend": backend, "precision": precision, "broadcast": broadcast}

    def val(t):
        return float(np.asarray(to_np(t), dtype=np.float64).ravel()[0])

    def judge(monitor, got, ref, abs_budget=None, rel_budget=None, mech_extra="", log_ref=None):
        if log_ref is not None and rel_budget is not None and rel_budget > 0.05:
            # non-log variant with a large log-space budget: an error d in the log is a factor e^d
            if got > 0 and ref > 0 and max(mp.mpf(got), ref) <= floor:
                ok = True  # both in (or next to) the subnormal range: no relative precision is promised there
            elif got > 0 and ref > 0:
                err = abs(mp.log(mp.mpf(got)) - log_ref)
                ok = err <= rel_budget
            else:
                # one side underflowed: the other must be below floor * e^budget
                other = mp.mpf(got) if ref == 0 or ref < floor else ref
                ok = got >= 0 and other <= floor * mp.exp(min(rel_budget, 700))
            if ok:
                shard.ok(monitor)
            else:
                shard.violate("C04/subnormal-rate-on-xla-tf" if mech_extra else f"C04/{monitor}:{bp}", f"{monitor}{tuple(rounded)} on {bp} = {got!r}, exact {mp.nstr(ref, 20)} (log-space budget {rel_budget:.3g})", case, monitor)
            return ok
        if ref == -mp.inf or ref == mp.inf:
            ok = got == float(ref)
        elif mp.isnan(ref):
            ok = got != got
        else:
            err = abs(mp.mpf(got) - ref) if math.isfinite(got) else mp.inf
            lim = mp.mpf(0)
            if abs_budget is not None:
                lim += abs_budget
            if rel_budget is not None:
                lim += rel_budget * abs(ref) + floor
            ok = err <= lim
            if ok and lim > 0:
                shard.maximum(f"budget_fraction_{monitor}_{precision}", float(err / lim))
        if ok:
            shard.ok(monitor)
        else:
            mech = f"C04/{monitor}:{bp}"
            if mech_extra:
                # XLA / TF flush or truncate subnormal inputs (denormals-are-zero mode)
                mech = "C04/subnormal-rate-on-xla-tf"
            shard.violate(mech, f"{monitor}{tuple(rounded)} on {bp} = {got!r}, exact {mp.nstr(ref, 20)}", case, monitor)
        return ok

    if kind == "poisson":
        n, lam = rounded
        ref, scale = ref_poisson_log(n, lam)
        extra = ""
        if backend in ("jax", "tensorflow") and 0 < lam < min_normal(precision) and n > 0:
            extra = ":subnormal"
        got = val(tb.poisson_logpdf(tens[0], tens[1]))
        budget = K * eps * scale if math.isfinite(scale) else None
        judge("poisson_logpdf", got, ref, abs_budget=budget, mech_extra=extra)
        gotp = val(tb.poisson(tens[0], tens[1]))
        refp = mp.exp(ref) if ref != -mp.inf else mp.mpf(0)
        judge("poisson", gotp, refp, rel_budget=budget if budget is not None else 0.0, mech_extra=extra, log_ref=ref if ref != -mp.inf else None)
        d = pyhf.probability.Poisson(tens[1])
        gd = val(d.log_prob(tens[0]))
        judge("dist_log_prob", gd, ref, abs_budget=budget, mech_extra=extra)
        gi = val(pyhf.probability.Independent(pyhf.probability.Poisson(tb.astensor([lam, lam]))).log_prob(tb.astensor([n, n])))
        judge("dist_log_prob", gi, 2 * ref, abs_budget=2 * budget if budget is not None else None, mech_extra=extra)
        nontrivial = (n != int(n)) or lam < 1e-3 or lam > 1e4
    elif kind == "normal":
        x, mu, sigma = rounded
        ref, scale = ref_normal_log(x, mu, sigma)
        budget = K * eps * scale
        # the subtraction x-mu of the *rounded* inputs is exact in the reference; in floating point it
        # costs one rounding of |x|+|mu| relative to sigma, i.e. eps*(|x|+|mu|)/sigma * |z| in the exponent
        z = abs(x - mu) / sigma
        budget += K * eps * (abs(x) + abs(mu)) / sigma * (z + 1)
        got = val(tb.normal_logpdf(tens[0], tens[1], tens[2]))
        judge("normal_logpdf", got, ref, abs_budget=budget)
        gotp = val(tb.normal(tens[0], tens[1], tens[2]))
        judge("normal", gotp, mp.exp(ref), rel_budget=budget, log_ref=ref)
        gd = val(pyhf.probability.Normal(tens[1], tens[2]).log_prob(tens[0]))
        judge("dist_log_prob", gd, ref, abs_budget=budget)
        nontrivial = z > 8 or sigma < 1e-3 or sigma > 1e3
    else:
        (x,) = rounded[:1]
        if len(args) == 1:
            ref, scale = ref_cdf(x)
            got = val(tb.normal_cdf(tens[0]))
            judge("normal_cdf", got, ref, rel_budget=K * eps * scale)
        else:
            x, mu, sigma = rounded
            ref, scale = ref_cdf(x, mu, sigma)
            z = abs(x - mu) / sigma
            got = val(tb.normal_cdf(tens[0], tens[1], tens[2]))
            judge("normal_cdf", got, ref, rel_budget=K * eps * (scale + (abs(x) + abs(mu)) / sigma * (z + 1)))
        nontrivial = abs(x) > 8
    if nontrivial:
        shard.nontrivial(kind, [float(f"{r:.3g}") for r in rounded], bp)
    shard.covered("primitives", kind)


def record_ranges(shard, seed):
    """Passive recorder: the argument ranges that fits and p-value computations really produce (the directed
    workload above must be a superset; both ranges are printed in the evidence)."""
    import copy
    import numpy as np
    import pyhf
    from .. import gen
    from pyhf.tensor.numpy_backend import numpy_backend as NB

    rec = {"poisson_n": [np.inf, -np.inf], "poisson_rate": [np.inf, -np.inf], "normal_abs_z": [np.inf, -np.inf], "normal_sigma": [np.inf, -np.inf], "cdf_arg": [np.inf, -np.inf]}

    def upd(key, arr):
        a = np.asarray(arr, dtype=float).ravel()
        a = a[np.isfinite(a)]
        if a.size:
            rec[key][0] = min(rec[key][0], float(a.min()))
            rec[key][1] = max(rec[key][1], float(a.max()))

    o_pl, o_nl, o_cdf = NB.poisson_logpdf, NB.normal_logpdf, NB.normal_cdf

    def pl(self, n, lam):
        upd("poisson_n", n); upd("poisson_rate", lam)
        return o_pl(self, n, lam)

    def nl(self, x, mu, sigma):
        upd("normal_abs_z", np.abs((np.asarray(x, dtype=float) - np.asarray(mu, dtype=float)) / np.asarray(sigma, dtype=float))); upd("normal_sigma", sigma)
        return o_nl(self, x, mu, sigma)

    def cdf(self, x, mu=0, sigma=1):
        upd("cdf_arg", (np.asarray(x, dtype=float) - mu) / sigma)
        return o_cdf(self, x, mu, sigma)

    NB.poisson_logpdf, NB.normal_logpdf, NB.normal_cdf = pl, nl, cdf
    try:
        rng = random.Random(seed)
        for _ in range(4):
            spec, _ = gen.gen_spec(rng, profile="wellposed", max_channels=2, max_samples=3, max_bins=3, max_nuis=8)
            spec["parameters"] = [p for p in spec["parameters"] if p["name"] == "lumi"]
            model = pyhf.Model(copy.deepcopy(spec), poi_name="mu")
            rates = [float(x) for x in model.expected_actualdata(model.config.suggested_init())]
            data = [float(gen.poisson_draw(rng, r)) for r in rates] + list(model.config.auxdata)
            try:
                pyhf.infer.hypotest(1.0, data, model, return_expected_set=True)
                pyhf.infer.hypotest(0.0, data, model, test_stat="q0")
                pyhf.infer.intervals.upper_limits.upper_limit(data, model, scan=np.linspace(0.1, 8, 6))
            except Exception:
                pass
    finally:
        NB.poisson_logpdf, NB.normal_logpdf, NB.normal_cdf = o_pl, o_nl, o_cdf
    for k, (lo, hi) in rec.items():
        if hi >= lo:
            shard.covered("ranges_seen_in_real_inference", f"{k}: [{lo:.3g}, {hi:.3g}]")
            shard.counters["recorded_inference_ranges"] += 1


def plan(tier, seed):
    per = 450 if tier == "quick" else 60000
    combos = [(b, p) for b in ("numpy", "jax", "pytorch", "tensorflow") for p in ("64b", "32b")]
    shards = []
    for i, (b, p) in enumerate(combos):
        for j in range(2):
            shards.append({"backend": b, "precision": p, "n": per, "seed": seed * 86028121 + i * 2 + j})
    return shards


def run_shard(shard):
    import logging
    logging.disable(logging.CRITICAL)
    import pyhf

    p = shard.params
    pyhf.set_backend(p["backend"], precision=p["precision"])
    shard.covered("backends", f"{p['backend']}-{p['precision']}")
    rng = random.Random(p["seed"])
    pr = {"poisson": [math.inf, 0, math.inf, 0], "normal_z": [0, 0], "cdf": [0, 0]}
    for k in range(p["n"]):
        n, lam = gen_poisson_args(rng, p["precision"])
        check_tuple("poisson", (n, lam), p["backend"], p["precision"], shard, broadcast=(k % 7 == 0))
        pr["poisson"] = [min(pr["poisson"][0], n), max(pr["poisson"][1], n), min(pr["poisson"][2], lam), max(pr["poisson"][3], lam)]
        x, mu, sigma = gen_normal_args(rng, p["precision"])
        check_tuple("normal", (x, mu, sigma), p["backend"], p["precision"], shard, broadcast=(k % 5 == 0))
        xc = gen_cdf_arg(rng, p["precision"])
        check_tuple("cdf", (xc,), p["backend"], p["precision"], shard, broadcast=(k % 3 == 0))
        if k % 4 == 0:
            x, mu, sigma = gen_normal_args(rng, p["precision"])
            check_tuple("cdf", (x, mu, sigma), p["backend"], p["precision"], shard)
        if k == 0 and shard.index in (0, 3):
            shard.sample({"poisson": [n, lam], "normal": [x, mu, sigma], "cdf": xc, "backend": p["backend"], "precision": p["precision"]})
    if p["backend"] == "numpy" and p["precision"] == "64b" and shard.index == 0:
        record_ranges(shard, p["seed"])
        shard.covered("ranges_of_directed_workload", "poisson n: [0, 1e8]; rate: [0, subnormal .. 1e8]; |z| up to 400 (log-density) / 38 (CDF); sigma over 20 decades; cdf argument [-38, 38]")
    shard.maximum("poisson_n_max", pr["poisson"][1])
    shard.maximum("poisson_rate_max", pr["poisson"][3])
    shard.covered("poisson_rate_min_seen", f"{pr['poisson'][2]:.3g}")


def replay(rec, shard):
    import logging
    logging.disable(logging.CRITICAL)
    import pyhf

    c = rec["case"]
    pyhf.set_backend(c["backend"], precision=c["precision"])
    check_tuple(c["kind"], tuple(c["args"]), c["backend"], c["precision"], shard, c.get("broadcast", False))
