"""C13 — gradients handed to optimisers are the true gradient of the objective.

Monitor on pyhf.optimize.common.shim(..., do_grad=True)['func'](pars): the value must equal the
non-differentiating path and the gradient must equal 4th-order Richardson central differences of
the non-grad objective (independent of autodiff), component by component; at kinks of the
piecewise-linear / piecewise-exponential codes (alpha = 0) the component must lie in the
[left, right] one-sided derivative interval.
"""
import copy
import math
import random

from .. import gen
from ..refmodel import Layout
from . import c01
from .c03 import to_np

LEVEL = "exploration"
RULE = (
    "Well-posed generated models (every constrained modifier type) x interpcode settings (default code4/code4p and the kinked "
    "code0/code1, code2) x parameter points in every interpolation regime and exactly on the breakpoints 0, +-1 x datasets x "
    "{jax, pytorch, tensorflow} x do_stitch x fixed-parameter masks (64-bit). A case = (model, settings, point, data, mask, "
    "stitch, backend); non-trivial when the point has an alpha outside the core or on a breakpoint, a fixed parameter, and the "
    "gradient has >=3 non-zero components. Kinks of codes 0/1 at alpha=0 (no derivative) are recorded, not judged."
)
ASSUMPTIONS = [
    "finite differences: D4 = (4 D(h/2) - D(h))/3 with h = 1e-3 of the non-grad objective; tolerance 1e-6*(|g|+1) (clean code <= 8e-10 incl. breakpoints)",
    "value vs non-grad path: 1e-10 relative",
    "points are kept strictly inside the bounds (margin 5e-3) so that the difference stencil stays in the domain; rates must stay positive on the stencil, else the component is skipped",
    "second-order information (Hessians, MINUIT errors) is not examined",
]
REQUIRED = ("value", "gradient")

H = 1e-3


def build(case):
    import pyhf

    model = pyhf.Model(copy.deepcopy(case["spec"]), poi_name=case.get("poi", "mu"), modifier_settings=case["settings"])
    return model


def check_case(case, shard):
    import pyhf
    from pyhf.infer.mle import twice_nll
    from pyhf.optimize.common import shim

    tb = pyhf.tensorlib
    model = build(case)
    cfg = model.config
    L = Layout(model)
    pars = list(case["pars"])
    data = list(case["data"]) + list(case["aux"])
    bounds = [tuple(b) for b in cfg.suggested_bounds()]
    fixed_idx = case["fixed_idx"]
    fixed_vals = [(i, pars[i]) for i in fixed_idx]
    stitch = case["stitch"]
    kw_g, stitch_g = shim(twice_nll, data, model, list(pars), bounds, fixed_vals or None, do_grad=True, do_stitch=stitch)
    kw_n, stitch_n = shim(twice_nll, data, model, list(pars), bounds, fixed_vals or None, do_grad=False, do_stitch=stitch)
    free = [i for i in range(cfg.npars) if i not in fixed_idx]
    x0 = [pars[i] for i in free] if stitch else list(pars)
    idx_map = free if stitch else list(range(cfg.npars))
    ctx = f"backend={case['backend']} stitch={stitch} fixed={fixed_idx} settings={case['settings']}"
    try:
        val, grad = kw_g["func"](tb.astensor(x0) if case["backend"] != "jax" else x0)
    except Exception as e:
        shard.violate(f"C13/func-raised:{case['backend']}", f"value-and-gradient function raised {type(e).__name__}: {str(e)[:200]}; {ctx}", case, "value")
        return
    val = float(to_np(val).reshape(-1)[0])
    grad = [float(g) for g in to_np(grad).reshape(-1)]

    def fn(x):
        v = kw_n["func"](tb.astensor(x) if case["backend"] != "jax" else x)
        return float(to_np(v).reshape(-1)[0])

    # the optimisers hand the function ONE numpy array that they update in place between calls: evaluate at another
    # point, overwrite the same array with this point, evaluate again - the answer must be the one obtained above
    try:
        import numpy as np
        xa = np.array([min(max(v + 0.013 * (i + 1), b_[0] + 1e-3), b_[1] - 1e-3) for i, (v, b_) in enumerate(zip(x0, [bounds[j] for j in idx_map]))], dtype=float)
        kw_g["func"](xa)
        xa[:] = np.array(x0, dtype=float)
        val2, grad2 = kw_g["func"](xa)
        val2 = float(to_np(val2).reshape(-1)[0])
        grad2 = [float(g) for g in to_np(grad2).reshape(-1)]
        if not (abs(val2 - val) <= 1e-12 * (abs(val) + 1) and len(grad2) == len(grad) and all(abs(a - b_) <= 1e-10 * (abs(b_) + 1) for a, b_ in zip(grad2, grad))):
            shard.violate(f"C13/stale-after-in-place-update:{case['backend']}", f"after the caller's array was overwritten in place with the point, value/gradient {val2!r}/{grad2[:3]} differ from a direct evaluation {val!r}/{grad[:3]}; {ctx}", case, "value")
        else:
            shard.ok("value")
            shard.covered("call_histories", "same array updated in place between calls")
    except Exception as e:
        shard.violate(f"C13/func-raised:{case['backend']}", f"value-and-gradient function raised {type(e).__name__} on a numpy array: {str(e)[:200]}; {ctx}", case, "value")
    v_n = fn(x0)
    if not math.isfinite(v_n):
        shard.skip("objective not finite at the point (out of domain)")
        return
    if not abs(val - v_n) <= 1e-10 * (abs(v_n) + 1):
        shard.violate(f"C13/value-mismatch:{case['backend']}", f"grad path value {val!r} != non-grad path {v_n!r}; {ctx}", case, "value")
    else:
        shard.ok("value")
    if len(grad) != len(x0):
        shard.violate(f"C13/gradient-shape:{case['backend']}", f"gradient has {len(grad)} components for {len(x0)} free parameters; {ctx}", case, "gradient")
        return
    # kink detection: alpha exactly 0 with a kinked code on that parameter
    idx = gen.spec_modifier_index(case["spec"])
    kinked = set()
    for name, bt in idx.items():
        p0 = L.par_slice[name][0]
        if ("histosys" in bt or "normsys" in bt) and min(abs(pars[p0] - bp) for bp in (0.0, 1.0, -1.0)) <= 2.5e-3:
            # exactly on a breakpoint: one-sided stencils on both sides (the objective is only C0 there for
            # codes 0/1 at alpha=0, C1 for code 2 at +-1, C2 for codes 4/4p) and an interval test
            kinked.add(p0)
    true_kinks = set()
    for name, bt in idx.items():
        p0 = L.par_slice[name][0]
        if pars[p0] == 0.0 and (("histosys" in bt and case["settings"]["histosys"]["interpcode"] == "code0") or ("normsys" in bt and case["settings"]["normsys"]["interpcode"] == "code1")):
            true_kinks.add(p0)
    nonzero = 0
    worst = 0.0
    for k, gi in enumerate(grad):
        i = idx_map[k]
        if (not stitch) and i in fixed_idx:
            continue  # component of a parameter the optimiser holds fixed: not used
        lo, hi = bounds[i]

        def d(h, side=0):
            xp, xm = list(x0), list(x0)
            if side == 0:
                xp[k] += h
                xm[k] -= h
                return (fn(xp) - fn(xm)) / (2 * h)
            xq, xr = list(x0), list(x0)
            xp[k] += side * h
            xq[k] += side * 2 * h
            xr[k] += side * 3 * h
            f0 = v_n
            return side * (-11 * f0 + 18 * fn(xp) - 9 * fn(xq) + 2 * fn(xr)) / (6 * h)

        if x0[k] - 3 * H <= lo or x0[k] + 3 * H >= hi:
            shard.skip("component too close to a bound for the difference stencil")
            continue
        if i in kinked:
            dl, dr = d(H / 4, -1), d(H / 4, +1)
            a, b = min(dl, dr), max(dl, dr)
            slack = 1e-5 * (abs(a) + abs(b) + 1)
            if i in true_kinks:
                # the objective has no derivative here (codes 0/1 at alpha=0): the property makes no demand;
                # what autodiff returns is recorded, not judged
                inside = math.isfinite(gi) and a - slack <= gi <= b + slack
                shard.skip("kink of code0/code1 at alpha=0: derivative does not exist (recorded: autodiff value %s the one-sided interval)" % ("inside" if inside else "outside"))
                if not math.isfinite(gi):
                    shard.violate(f"C13/gradient-not-finite:{case['backend']}", f"component {i} = {gi!r} at a kink; {ctx}", dict(case, component=i), "gradient")
                continue
            if not (math.isfinite(gi) and a - slack <= gi <= b + slack):
                shard.violate(f"C13/gradient-at-kink:{case['backend']}", f"component {i} = {gi!r} outside the one-sided derivative interval [{a!r}, {b!r}] at the breakpoint alpha={pars[i]}; {ctx}", dict(case, component=i), "gradient")
            else:
                shard.ok("gradient")
                shard.covered("breakpoint_interval_tests", f"alpha={pars[i]}")
                shard.maximum("one_sided_derivative_gap", b - a)
            continue
        d1, d2 = d(H), d(H / 2)
        if not (math.isfinite(d1) and math.isfinite(d2)):
            shard.skip("objective not finite on the stencil (out of domain)")
            continue
        fd = (4 * d2 - d1) / 3
        err = abs(gi - fd)
        lim = 1e-6 * (abs(fd) + 1)
        if not err <= lim:
            shard.violate(f"C13/gradient-mismatch:{case['backend']}", f"d(2NLL)/d par[{i}] = {gi!r} from autodiff, {fd!r} from Richardson differences (h={H}); {ctx}", dict(case, component=i), "gradient")
        else:
            shard.ok("gradient")
            worst = max(worst, err / (abs(fd) + 1))
        if abs(fd) > 1e-9:
            nonzero += 1
    shard.maximum("gradient_rel_err", worst)
    flags = c01.alpha_flags(case["spec"], L)
    outside = any(abs(pars[i]) > 1 for i, a in enumerate(flags) if a)
    onbp = any(abs(pars[i]) in (0.0, 1.0) for i, a in enumerate(flags) if a)
    if (outside or onbp) and fixed_idx and nonzero >= 3:
        shard.nontrivial(c01.shape_signature(case["spec"]), case["settings"], [round(p, 3) for p in pars], stitch, fixed_idx, case["backend"])
    if outside:
        shard.covered("regimes", "extrapolation")
    if onbp:
        shard.covered("regimes", "on a breakpoint")
    shard.covered("stitch", stitch)
    shard.covered("model_kinds", "no POI, bin-wise modifiers only" if case.get("poi", "mu") is None else "POI and mixed modifiers")
    shard.covered("settings", f"{case['settings']['histosys']['interpcode']}/{case['settings']['normsys']['interpcode']}")


def make_case(rng, backend):
    import pyhf

    # one case in five is a model without a POI whose modifiers are all bin-wise (shapesys, staterror, shapefactor): every
    # parameter then reaches the rates through a gather, and TensorFlow hands back a sparse (IndexedSlices) gradient
    binwise_only = rng.random() < 0.2
    if binwise_only:
        spec, _ = gen.gen_spec(rng, profile="wellposed", max_channels=2, max_samples=3, max_bins=3, max_nuis=9, types=["shapesys", "staterror", "shapefactor"])
        for c in spec["channels"]:
            for smp in c["samples"]:
                smp["modifiers"] = [m for m in smp["modifiers"] if m["type"] != "normfactor"]
        if not any(smp["modifiers"] for c in spec["channels"] for smp in c["samples"]):
            binwise_only = False
    if not binwise_only:
        spec, _ = gen.gen_spec(rng, profile="wellposed", max_channels=2, max_samples=3, max_bins=3, max_nuis=9)
    poi = None if binwise_only else "mu"
    spec["parameters"] = [p for p in spec["parameters"] if p["name"] == "lumi"]
    settings = rng.choice([
        {"histosys": {"interpcode": "code4p"}, "normsys": {"interpcode": "code4"}},
        {"histosys": {"interpcode": "code4p"}, "normsys": {"interpcode": "code4"}},
        {"histosys": {"interpcode": "code0"}, "normsys": {"interpcode": "code1"}},
        {"histosys": {"interpcode": "code2"}, "normsys": {"interpcode": "code1"}},
    ])
    model = pyhf.Model(copy.deepcopy(spec), poi_name=poi, modifier_settings=settings)
    cfg = model.config
    L = Layout(model)
    flags = c01.alpha_flags(spec, L)
    bounds = cfg.suggested_bounds()
    pars = []
    for i, (lo, hi) in enumerate(bounds):
        if flags[i]:
            r = rng.random()
            if r < 0.3:
                v = rng.uniform(-0.9, 0.9)
            elif r < 0.55:
                v = rng.choice([-1, 1]) * rng.uniform(1.05, 2.5)
            else:
                v = rng.choice([0.0, 1.0, -1.0])
        else:
            centre = 1.0
            v = rng.uniform(0.7, 1.4) if lo < 0.7 and hi > 1.4 else rng.uniform(lo + 0.1 * (hi - lo), hi - 0.1 * (hi - lo))
        pars.append(float(min(max(v, lo + 5e-3), hi - 5e-3)))
    rates = [max(float(x), 0.5) for x in to_np(model.expected_actualdata(pars))]
    data = [float(gen.poisson_draw(rng, x)) for x in rates]
    if rng.random() < 0.2:
        data = [gen._round(x * 1.03 + 0.21, 3) for x in rates]
    aux = []
    for name in cfg.auxdata_order:
        ps = cfg.param_set(name)
        for a in ps.auxdata:
            aux.append(float(a) * (1 + 0.02 * rng.uniform(-1, 1)) + (0.05 * rng.uniform(-1, 1) if ps.pdf_type == "normal" else 0.0))
    cand = [i for i in range(cfg.npars)]
    nfix = rng.choice([0, 1, 1, 2])
    fixed_idx = sorted(rng.sample(cand, min(nfix, len(cand) - 1)))
    return {"spec": spec, "settings": settings, "pars": pars, "data": data, "aux": aux, "fixed_idx": fixed_idx,
            "stitch": rng.random() < 0.5, "backend": backend, "poi": poi}


def plan(tier, seed):
    if tier == "quick":
        lay = [("jax", 9)] * 6 + [("pytorch", 16)] * 5 + [("tensorflow", 9)] * 5
    else:
        lay = [("jax", 180)] * 10 + [("pytorch", 1000)] * 5 + [("tensorflow", 500)] * 5  # (a jax process segfaults in XLA after several hundred compiled models: many short shards)
    return [{"backend": b, "n": n, "seed": seed * 8191 + i} for i, (b, n) in enumerate(lay)]


def run_shard(shard):
    import logging
    logging.disable(logging.CRITICAL)
    import pyhf

    p = shard.params
    pyhf.set_backend(p["backend"], "scipy", precision="64b")
    shard.covered("backends", p["backend"])
    rng = random.Random(p["seed"])
    for k in range(p["n"]):
        if p["backend"] == "jax" and k and k % 40 == 0:
            try:
                import jax
                jax.clear_caches()
            except Exception:
                pass
        case = make_case(rng, p["backend"])
        check_case(case, shard)
        if k == 0 and shard.index in (0, 6):
            shard.sample(case)


def replay(rec, shard):
    import logging
    logging.disable(logging.CRITICAL)
    import pyhf

    c = rec["case"]
    c.pop("component", None)
    pyhf.set_backend(c["backend"], "scipy", precision="64b")
    check_case(c, shard)
