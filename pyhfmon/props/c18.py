"""C18 — export to HistFactory XML+ROOT and re-import preserves the statistical model.

History monitor on writexml -> readxml.parse cycles: structural diff of the re-imported
workspace, likelihood equality on random (parameters, data) with parameters mapped by name, and
cycle histories into the same / different directories (nothing read from a previous import may be
reused for a different file).
"""
import copy
import math
import os
import random
import shutil
import tempfile

from .. import VERIF, gen
from .c03 import to_np
from . import c16

LEVEL = "exploration"
RULE = (
    "Exportable workspaces (1-3 channels, 1-3 samples, 1-4 bins; histosys, normsys, normfactor with custom init/bounds, shapesys, "
    "staterror, shapefactor, lumi with central value != 1; fixed scalar parameters; 1-3 measurements) written with writexml and "
    "parsed back; histories of 2-4 export/import cycles into the same directory (different workspaces) and alternating "
    "directories. A case = one cycle of one history; non-trivial when lumi != 1 with sigma > 0, a relative/absolute-converted "
    "modifier and a fixed parameter are present, or the cycle re-exports into a directory already imported from."
)
ASSUMPTIONS = [
    "out of the generator because the XML format cannot express them: non-zero absolute uncertainty on a zero-yield bin, fixed bin-wise (gamma) parameters, normfactor settings differing between measurements, several staterror names in one channel, staterror sets spanning channels, auxdata/sigmas overrides other than lumi",
    "yields, observations and modifier data compared at 1e-12 relative (relative<->absolute conversions cost one rounding); likelihood 1e-9 relative; names must survive except staterror (format dictates staterror_<channel>)",
    "uproot / ROOT file I/O is part of pyhf's observable behaviour",
]
REQUIRED = ("structure", "likelihood", "lumi_recovered", "history_no_reuse")


def gen_exportable(rng):
    nch = rng.randint(1, 3)
    chans = rng.sample(["SR", "CR", "cr_low", "Z", "ch10", "ch2", "B1", "VR_top"], nch)
    pool = ["signal"] + rng.sample(["bkg", "Wjets", "ttbar", "Zll", "B2"], rng.randint(1, 2))
    sysn = rng.sample(["jes", "JER", "alpha_b", "Zscale", "acc", "x10"], rng.randint(1, 3))
    use_lumi = rng.random() < 0.6
    kfac = rng.random() < 0.5
    sf_done = False
    channels, obs = [], []
    for c in chans:
        nb = rng.randint(1, 4)
        members = ["signal"] + [s for s in pool[1:] if rng.random() < 0.8]
        if len(members) == 1:
            members.append(pool[1])
        rng.shuffle(members)
        stat_parts = [s for s in members if s != "signal" and rng.random() < 0.6] if rng.random() < 0.6 else []
        stat_name = rng.choice([f"staterror_{c}", f"mcstat_{c}"])
        samples = []
        for s in members:
            sig = s == "signal"
            data = [gen._round(rng.uniform(1.0, 20.0) if sig else rng.uniform(10.0, 120.0), 3) for _ in range(nb)]
            if not sig and rng.random() < 0.1:
                data[rng.randrange(nb)] = 0.0
            negative_bin = None
            if not sig and s in stat_parts and len(stat_parts) >= 2 and s == stat_parts[0] and rng.random() < 0.3:
                # interference-like template: one negative yield, the other participants keep the bin total positive
                negative_bin = rng.randrange(nb)
                data[negative_bin] = -gen._round(rng.uniform(0.5, 4.0), 3)
            mods = []
            if sig:
                mods.append({"name": "mu", "type": "normfactor", "data": None})
            elif kfac and s == pool[1]:
                mods.append({"name": "k_bkg", "type": "normfactor", "data": None})
            if use_lumi and rng.random() < 0.8:
                mods.append({"name": "lumi", "type": "lumi", "data": None})
            for sn in sysn:
                if rng.random() < 0.5:
                    up, dn = gen._round(1 + rng.uniform(0.01, 0.3), 4), gen._round(1 - rng.uniform(0.01, 0.3), 4)
                    if rng.random() < 0.3:
                        up, dn = dn, up  # anti-correlated with the other samples: the +1 sigma variation lowers this yield
                    mods.append({"name": sn, "type": "normsys", "data": {"hi": up, "lo": dn}})
                if rng.random() < 0.4:
                    mods.append({"name": sn, "type": "histosys", "data": {"hi_data": [gen._round(v * (1 + rng.uniform(0.01, 0.2)) + 0.01, 4) for v in data],
                                                                            "lo_data": [gen._round(v * (1 - rng.uniform(0.01, 0.2)) - (0.02 if v < 0 else 0.0), 4) for v in data]}})
            if not sig and negative_bin is None and rng.random() < 0.35:
                mods.append({"name": f"shape_{s}_{c}", "type": "shapesys", "data": [gen._round(rng.uniform(0.03, 0.3) * v, 4) if v > 0 else 0.0 for v in data]})
            if s in stat_parts:
                mods.append({"name": stat_name, "type": "staterror", "data": [gen._round(rng.uniform(0.02, 0.2) * abs(v), 4) if v != 0 else 0.0 for v in data]})
            if not sig and not sf_done and rng.random() < 0.15:
                mods.append({"name": f"sf_{s}", "type": "shapefactor", "data": None})
                sf_done = True
            rng.shuffle(mods)
            samples.append({"name": s, "data": data, "modifiers": mods})
        channels.append({"name": c, "samples": samples})
        tot = [sum(s["data"][b] for s in samples) for b in range(nb)]
        obs.append({"name": c, "data": [float(gen.poisson_draw(rng, t)) for t in tot]})
    declared = {m["name"]: m["type"] for c in channels for s in c["samples"] for m in s["modifiers"]}
    normfactors = [n for n, t in declared.items() if t == "normfactor"]
    nf_cfg = {}
    for n in normfactors:
        if rng.random() < 0.7:
            nf_cfg[n] = {"name": n, "inits": [gen._round(rng.uniform(0.5, 2.0), 2)], "bounds": [[0.0 if n == "mu" else gen._round(rng.uniform(0, 0.3), 2), gen._round(rng.uniform(5, 15), 1)]]}
    scalars = [n for n, t in declared.items() if t in ("normsys", "histosys")]
    meas = []
    for i in range(rng.randint(1, 3)):
        params = [copy.deepcopy(v) for v in nf_cfg.values()]
        if use_lumi and "lumi" in declared:
            l0 = gen._round(rng.choice([1.0, 1.2, 0.85, 2.5, 36.1]), 3)
            # the fit starting value need not be the measured luminosity (the XML carries only the latter)
            i0 = l0 if rng.random() < 0.5 else gen._round(l0 * rng.uniform(0.9, 1.1), 4)
            params.append({"name": "lumi", "auxdata": [l0], "sigmas": [gen._round(rng.uniform(0.01, 0.06) * l0, 5)], "inits": [i0],
                           "bounds": [[gen._round(0.5 * l0, 4), gen._round(1.5 * l0, 4)]], "fixed": rng.random() < 0.3})
        for n in scalars:
            if rng.random() < 0.25:
                params.append({"name": n, "fixed": True})
        if "k_bkg" in declared and rng.random() < 0.3:
            p = next((q for q in params if q["name"] == "k_bkg"), None)
            if p is None:
                params.append({"name": "k_bkg", "fixed": True, "inits": [1.0], "bounds": [[0, 10]]})
            # (a fixed flag on a configured normfactor is written through ParamSetting)
            else:
                p["fixed"] = True
        rng.shuffle(params)
        meas.append({"name": ["meas_main", "alt", "Third_1"][i], "config": {"poi": "mu", "parameters": params}})
    # normfactor Val/Low/High are written from the first measurement only: keep them identical everywhere
    for m in meas[1:]:
        for p in m["config"]["parameters"]:
            if p["name"] in nf_cfg:
                for k in ("inits", "bounds"):
                    p[k] = copy.deepcopy(nf_cfg[p["name"]][k])
    if any(p["name"] == "k_bkg" and "inits" in p and p["name"] not in nf_cfg for m in meas for p in m["config"]["parameters"]):
        # k_bkg configured only where fixed: make the (default) settings explicit in every measurement
        for m in meas:
            if not any(p["name"] == "k_bkg" for p in m["config"]["parameters"]):
                m["config"]["parameters"].append({"name": "k_bkg", "inits": [1.0], "bounds": [[0, 10]]})
    # later measurements may be about another parameter of interest (the background normalisation)
    for m in meas[1:]:
        if "k_bkg" in declared and rng.random() < 0.5 and not any(p["name"] == "k_bkg" and p.get("fixed") for p in m["config"]["parameters"]):
            m["config"]["poi"] = "k_bkg"
    rng.shuffle(obs)
    return {"channels": channels, "observations": obs, "measurements": meas, "version": "1.0.0"}


def export_import(ws, outdir, prefix="FitConfig"):
    from pyhf import readxml, writexml

    os.makedirs(os.path.join(outdir, "config"), exist_ok=True)
    os.makedirs(os.path.join(outdir, "data"), exist_ok=True)
    xml = writexml.writexml(copy.deepcopy(ws), os.path.join(outdir, "config"), os.path.join(outdir, "data"), prefix)
    top = os.path.join(outdir, f"{prefix}.xml")
    with open(top, "wb") as f:
        f.write(xml)
    return readxml.parse(top, outdir, track_progress=False)


def close(a, b, rel=1e-12):
    return abs(a - b) <= rel * (abs(a) + abs(b)) + 1e-300


def structural_problems(orig, back):
    probs = []
    oc = [c["name"] for c in orig["channels"]]
    bc = [c["name"] for c in back["channels"]]
    if sorted(oc) != sorted(bc):
        return [f"channels {bc} != {oc}"]
    bmap = {c["name"]: c for c in back["channels"]}
    for c in orig["channels"]:
        d = bmap[c["name"]]
        if [s["name"] for s in d["samples"]] != [s["name"] for s in c["samples"]]:
            probs.append(f"samples of {c['name']}: {[s['name'] for s in d['samples']]} != {[s['name'] for s in c['samples']]}")
            continue
        for s, t in zip(c["samples"], d["samples"]):
            if len(s["data"]) != len(t["data"]) or not all(close(a, b) for a, b in zip(s["data"], t["data"])):
                probs.append(f"yields of {c['name']}/{s['name']}: {t['data']} != {s['data']}")
            om = {(m["type"], m["name"] if m["type"] != "staterror" else f"staterror_{c['name']}"): m for m in s["modifiers"]}
            tm = {(m["type"], m["name"]): m for m in t["modifiers"]}
            if set(om) != set(tm):
                probs.append(f"modifiers of {c['name']}/{s['name']}: {sorted(tm)} != {sorted(om)}")
                continue
            for k, m in om.items():
                u = tm[k]
                if m["type"] == "normsys":
                    if not (close(m["data"]["hi"], u["data"]["hi"]) and close(m["data"]["lo"], u["data"]["lo"])):
                        probs.append(f"normsys {k[1]} data {u['data']} != {m['data']}")
                elif m["type"] == "histosys":
                    for key in ("hi_data", "lo_data"):
                        if not all(close(a, b) for a, b in zip(m["data"][key], u["data"][key])) or len(m["data"][key]) != len(u["data"][key]):
                            probs.append(f"histosys {k[1]} {key} {u['data'][key]} != {m['data'][key]}")
                elif m["type"] in ("shapesys", "staterror"):
                    if len(m["data"]) != len(u["data"]) or not all(close(a, b, 4e-16 * 8) or abs(a - b) <= 1e-12 * (abs(a) + abs(b)) for a, b in zip(m["data"], u["data"])):
                        probs.append(f"{m['type']} {k[1]} data {u['data']} != {m['data']}")
    oo = {o["name"]: o["data"] for o in orig["observations"]}
    bo = {o["name"]: o["data"] for o in back["observations"]}
    if set(oo) != set(bo) or any(len(oo[k]) != len(bo[k]) or not all(close(a, b) for a, b in zip(oo[k], bo[k])) for k in oo):
        probs.append(f"observations {bo} != {oo}")
    om = {m["name"]: m for m in orig["measurements"]}
    bm = {m["name"]: m for m in back["measurements"]}
    if list(bm) != list(om):
        probs.append(f"measurements {list(bm)} != {list(om)}")
    else:
        for n, m in om.items():
            if bm[n]["config"]["poi"] != m["config"]["poi"]:
                probs.append(f"POI of {n}: {bm[n]['config']['poi']} != {m['config']['poi']}")
    return probs


def model_pair(orig, back, mname):
    import pyhf

    mo = pyhf.Workspace(orig).model(measurement_name=mname)
    mb = pyhf.Workspace(back).model(measurement_name=mname)
    return mo, mb


def name_map(orig):
    mp = {}
    for c in orig["channels"]:
        for s in c["samples"]:
            for m in s["modifiers"]:
                mp[m["name"]] = f"staterror_{c['name']}" if m["type"] == "staterror" else m["name"]
    return mp


def likelihood_problems(orig, back, mname, rng, shard):
    probs = []
    mo, mb = model_pair(orig, back, mname)
    mp = name_map(orig)
    co, cb = mo.config, mb.config
    if sorted(mp[n] for n in co.par_order) != sorted(cb.par_order):
        return [f"parameters {sorted(cb.par_order)} != {sorted(mp[n] for n in co.par_order)}"], None
    # constant flags and lumi
    for n in co.par_order:
        fo, fb = co.param_set(n).suggested_fixed, cb.param_set(mp[n]).suggested_fixed
        if list(fo) != list(fb):
            probs.append(f"fixed flags of {n}: {fb} != {fo}")
        if co.param_set(n).n_parameters != cb.param_set(mp[n]).n_parameters:
            probs.append(f"size of {n} changed")
    if probs:
        return probs, None
    lum = None
    if "lumi" in co.par_order:
        po, pb = co.param_set("lumi"), cb.param_set("lumi")
        lum = (po.auxdata[0], po.sigmas[0], pb.auxdata[0], pb.sigmas[0])
    obs = {o["name"]: o["data"] for o in orig["observations"]}
    for k in range(3):
        po = c16.pars_by_name(mo, rng)
        ao = c16.aux_by_name(mo, rng)
        if k == 2:
            obs = {n: [float(gen.poisson_draw(rng, max(v, 1.0))) for v in d] for n, d in obs.items()}
        if k == 1:
            # the auxiliary data each model itself reports (what Workspace.data would use)
            ao = {n: [float(a) for a in co.param_set(n).auxdata] for n in co.auxdata_order}
            pb = {mp[n]: v for n, v in po.items()}
            ab = {mp[n]: [float(a) for a in cb.param_set(mp[n]).auxdata] for n in co.auxdata_order}
        else:
            pb = {mp[n]: v for n, v in po.items()}
            ab = {mp[n]: v for n, v in ao.items()}
        fo = c16.main_and_constraint(mo, po, obs, ao)[2]
        fb = c16.main_and_constraint(mb, pb, obs, ab)[2]
        if not math.isfinite(fo):
            shard.skip("non-finite log-density at the random point")
            continue
        if not abs(fo - fb) <= 1e-9 * (abs(fo) + 1):
            probs.append(f"logpdf original {fo!r} != re-imported {fb!r} (measurement {mname})")
            break
    return probs, lum


def check_history(seed, shard):
    rng = random.Random(seed)
    root = tempfile.mkdtemp(prefix="c18-", dir=os.path.join(VERIF, ".work"))
    try:
        dirs = [os.path.join(root, "A"), os.path.join(root, "B")]
        ncycles = rng.randint(2, 4)
        used = set()
        trace = []
        for k in range(ncycles):
            ws = gen_exportable(rng)
            d = dirs[0] if (k == 0 or rng.random() < 0.65) else dirs[1]
            reexport = d in used
            used.add(d)
            trace.append({"dir": os.path.basename(d), "reexport": reexport, "channels": [c["name"] for c in ws["channels"]]})
            case = {"seed": seed, "cycle": k, "trace": trace, "ws": ws}
            try:
                back = export_import(ws, d)
            except Exception as e:
                mech = "C18/cycle-raised"
                if reexport and isinstance(e, KeyError):
                    mech = "C18/stale-file-cache"
                shard.violate(mech, f"export/import cycle {k} into {'an already used' if reexport else 'a fresh'} directory raised {type(e).__name__}: {str(e)[:200]}", case, "structure")
                continue
            sp = structural_problems(ws, back)
            if sp:
                mech = "C18/structure"
                if reexport:
                    # the history is to blame only when the same workspace survives a cycle through a fresh directory
                    try:
                        fresh_ok = not structural_problems(ws, export_import(ws, os.path.join(root, f"F{k}")))
                    except Exception:
                        fresh_ok = False
                    mech = "C18/stale-file-cache" if fresh_ok else "C18/structure"
                shard.violate(mech, ("re-export into a directory already imported from: " if reexport else "") + "; ".join(sp)[:700], case, "history_no_reuse" if reexport else "structure")
                continue
            shard.ok("structure")
            if reexport:
                shard.ok("history_no_reuse")
            nontriv = reexport
            for m in ws["measurements"]:
                lp, lum = likelihood_problems(ws, back, m["name"], rng, shard)
                if lp:
                    mech = "C18/likelihood"
                    if any("fixed flags" in p for p in lp):
                        mech = "C18/constant-flags"
                    shard.violate(mech, "; ".join(lp)[:600], dict(case, measurement=m["name"]), "likelihood")
                else:
                    shard.ok("likelihood")
                if lum:
                    a0, s0, a1, s1 = lum
                    if not (close(a0, a1, 1e-12) and close(s0, s1, 1e-9)):
                        shard.violate("C18/lumi-not-recovered", f"lumi central value / sigma original ({a0}, {s0}) re-imported ({a1}, {s1}) (measurement {m['name']})", dict(case, measurement=m["name"]), "lumi_recovered")
                    else:
                        shard.ok("lumi_recovered")
                        fixed_any = any(p.get("fixed") for p in m["config"]["parameters"])
                        conv = any(mm["type"] in ("shapesys", "staterror") for c in ws["channels"] for s in c["samples"] for mm in s["modifiers"])
                        if a0 != 1.0 and s0 > 0 and fixed_any and conv:
                            nontriv = True
            # idempotence: a second cycle of the re-imported workspace changes nothing
            if k == 0:
                d2 = os.path.join(root, "C")
                try:
                    back2 = export_import(back, d2)
                    if structural_problems(back, back2) or back2["measurements"] != back["measurements"]:
                        shard.violate("C18/not-idempotent", "a second export/import cycle of the re-imported workspace changed it", case, "structure")
                    else:
                        shard.ok("structure")
                except Exception as e:
                    shard.violate("C18/cycle-raised", f"second cycle raised {type(e).__name__}: {str(e)[:200]}", case, "structure")
            if nontriv:
                shard.nontrivial(seed, k, os.path.basename(d), reexport)
            for t in {mm["type"] for c in ws["channels"] for s in c["samples"] for mm in s["modifiers"]}:
                shard.covered("modifier_types", t)
            shard.covered("cycles", "re-export into used directory" if reexport else "fresh directory")
            shard.covered("n_measurements", len(ws["measurements"]))
        return trace
    finally:
        shutil.rmtree(root, ignore_errors=True)


def plan(tier, seed):
    n = 3 if tier == "quick" else 300
    return [{"n": n, "seed": seed * 373587883 + i * 1000} for i in range(16)]


def run_shard(shard):
    import logging
    logging.disable(logging.CRITICAL)
    os.makedirs(os.path.join(VERIF, ".work"), exist_ok=True)
    p = shard.params
    for k in range(p["n"]):
        tr = check_history(p["seed"] + k, shard)
        if k == 0 and shard.index == 0:
            shard.sample({"history": tr})


def replay(rec, shard):
    import logging
    logging.disable(logging.CRITICAL)
    os.makedirs(os.path.join(VERIF, ".work"), exist_ok=True)
    check_history(rec["case"]["seed"], shard)
