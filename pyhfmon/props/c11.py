"""C11 — results are independent of the history of backend switches.

Trace monitor: random histories of switch / create / delete / eval events are executed against
pyhf, recorded as an event log, and judged by an offline checker: every `eval` of an object that
was created at any earlier point must equal (value, tensor type, dtype) the `eval` of a fresh
object created at that moment under the now-current backend; no switch or eval may raise.
"""
import copy
import gc
import random
import weakref

from .. import gen
from . import c01
from .c03 import to_np, gen_triple

LEVEL = "exploration"
RULE = (
    "Random histories of length 4-12 over set_backend(name in {numpy, jax, pytorch, tensorflow}, precision in {64b, 32b}, optimizer "
    "in {scipy, minuit}) interleaved at every position with creation of models (all modifier types, batched or not), the five "
    "interpolators, _TensorViewer and ParamViewer, deletion (+gc.collect) and evaluation (logpdf, expected_data, by-sample rates, "
    "interpolator calls incl. a call-shape change, viewer split/stitch/get, fits with scipy and minuit). A case = one history; "
    "non-trivial when it has >=2 effective switches, >=1 evaluated object older than the last switch and >=1 deletion before a "
    "switch; distinct by the event sequence signature."
)
ASSUMPTIONS = [
    "reference for every eval = a fresh object created at that moment under the current backend; tolerance 1e-12 relative in 64-bit, 2e-5 in 32-bit; tensor type and dtype exact",
    "fits compared on the attained objective (1e-6 relative in 64-bit, 5e-3 in 32-bit where they mainly serve to populate jit caches before a precision switch)",
    "an object that pyhf itself still references after deletion (e.g. jax's jit cache) is not 'garbage-collected'; only errors and wrong results are verdicts",
    "custom backends are not explored",
]
REQUIRED = ("eval_vs_fresh", "switch_ok")

BACKENDS = ["numpy", "jax", "pytorch", "tensorflow"]


def _spec(rng):
    spec, _ = gen.gen_spec(rng, profile="structural", max_channels=2, max_samples=3, max_bins=3)
    return spec


class World:
    """Executes a history and records the trace."""

    def __init__(self, rng, shard):
        self.rng = rng
        self.shard = shard
        self.objects = {}   # oid -> (kind, recipe, obj, born_at_switch)
        self.trace = []
        self.next_oid = 0
        self.nswitch = 0
        self.deaths_before_switch = 0
        self.pending_deaths = 0
        self.old_evals = 0
        self.state = None

    # ---------------------------------------------------------------- construction recipes
    def make(self, kind, recipe):
        import pyhf

        if kind == "model":
            return pyhf.Model(copy.deepcopy(recipe["spec"]), poi_name="mu", batch_size=recipe["batch"], modifier_settings=recipe["settings"])
        if kind == "interp":
            return pyhf.interpolators.get(recipe["code"])(recipe["hists"])
        if kind == "tensorviewer":
            from pyhf.tensor.common import _TensorViewer
            return _TensorViewer(recipe["indices"], names=recipe["names"])
        if kind == "paramviewer":
            from pyhf.parameters import ParamViewer
            par_map = {n: {"slice": slice(a, b)} for n, (a, b) in recipe["par_map"].items()}
            return ParamViewer(tuple(recipe["shape"]), par_map, recipe["selection"])
        raise ValueError(kind)

    def new_recipe(self):
        rng = self.rng
        kind = rng.choice(["model", "model", "model", "interp", "interp", "tensorviewer", "paramviewer"])
        if kind == "model":
            spec = _spec(rng)
            settings = {"histosys": {"interpcode": rng.choice(c01.HISTO_CODES)}, "normsys": {"interpcode": rng.choice(c01.NORM_CODES)}}
            return kind, {"spec": spec, "batch": rng.choice([None, None, 2]), "settings": settings, "seed": rng.randrange(1 << 30)}
        if kind == "interp":
            code = rng.choice([0, 1, 2, 4, "4p"])
            nset, nb = rng.randint(1, 3), rng.randint(1, 3)
            hists = []
            for _ in range(nset):
                tr = [gen_triple(rng) for _ in range(nb)]
                tr = [(d, n, u) for d, n, u in tr if 0.2 < u / n < 5 and 0.2 < d / n < 5] or [(8.0, 10.0, 13.0)]
                tr = (tr * nb)[:nb]
                hists.append([[[t[0] for t in tr], [t[1] for t in tr], [t[2] for t in tr]]])
            return kind, {"code": code, "hists": hists, "seed": rng.randrange(1 << 30)}
        if kind == "tensorviewer":
            n = rng.randint(3, 7)
            idx = list(range(n))
            rng.shuffle(idx)
            cut = rng.randint(1, n - 1)
            return kind, {"indices": [idx[:cut], idx[cut:]], "names": ["a", "b"], "seed": rng.randrange(1 << 30)}
        n1, n2, n3 = rng.randint(1, 3), rng.randint(1, 3), rng.randint(1, 2)
        par_map = {"p": (0, n1), "q": (n1, n1 + n2), "r": (n1 + n2, n1 + n2 + n3)}
        return kind, {"shape": [n1 + n2 + n3], "par_map": par_map, "selection": rng.choice([["q"], ["r", "p"], ["p", "q"]]), "seed": rng.randrange(1 << 30)}

    # ---------------------------------------------------------------- evaluation
    def evaluate(self, kind, recipe, obj, op):
        """Return a list of (label, tensor-or-number) observations."""
        import pyhf

        tb = pyhf.tensorlib
        r = random.Random(recipe["seed"] + hash(op) % 1000)
        if kind == "model":
            cfg = obj.config
            flags = c01.alpha_flags(recipe["spec"], c01.Layout(obj))
            N = recipe["batch"]
            rows = [gen.gen_point(r, cfg.suggested_bounds(), alpha_like=flags) for _ in range(N or 1)]
            for row in rows:
                for i, (lo, hi) in enumerate(cfg.suggested_bounds()):
                    if not flags[i]:
                        row[i] = min(max(row[i], 0.3), hi)
            pars = rows if N else rows[0]
            if op == "expected_data":
                return [("expected_data", obj.expected_data(pars)), ("by_sample", obj.main_model.expected_data(tb.astensor(pars), return_by_sample=True))]
            if op == "logpdf":
                nd = cfg.nmaindata
                drow = [[30.0 + 3 * k + j for k in range(nd)] + [float(a) for a in cfg.auxdata] for j in range(N or 1)]
                data = drow if N else drow[0]
                return [("logpdf", obj.logpdf(pars, data))]
            if op == "fit":
                if N:
                    return []
                nd = cfg.nmaindata
                init = cfg.suggested_init()
                exp = to_np(obj.expected_actualdata(init))
                data = [float(max(round(float(x)), 1.0)) for x in exp] + [float(a) for a in cfg.auxdata]
                try:
                    _, val = pyhf.infer.mle.fit(data, obj, return_fitted_val=True)
                    return [("fit_objective", val)]
                except pyhf.exceptions.FailedMinimization:
                    return [("fit_failed", 0.0)]
        if kind == "interp":
            nset = len(recipe["hists"])
            na = 1 if op == "call" else 3
            alphas = [[r.uniform(-2.5, 2.5) for _ in range(na)] for _ in range(nset)]
            return [("interp", obj(tb.astensor(alphas)))]
        if kind == "tensorviewer":
            n = sum(len(i) for i in recipe["indices"])
            data = tb.astensor([10.0 + k for k in range(n)])
            parts = obj.split(data)
            return [("split0", parts[0]), ("split1", parts[1]), ("stitch", obj.stitch(parts)), ("named", obj.split(data, selection=["b"])[0])]
        if kind == "paramviewer":
            n = recipe["shape"][0]
            data = tb.astensor([0.5 + k for k in range(n)])
            return [("get", obj.get(data))]
        return []

    def ops_for(self, kind):
        return {"model": ["expected_data", "logpdf", "fit"], "interp": ["call", "call3"], "tensorviewer": ["split"], "paramviewer": ["get"]}[kind]


def compare(shard, label, old, new, precision, ctx, case):
    import numpy as np

    def norm(x):
        return x

    if isinstance(old, (int, float)):
        ok = old == new
        if not ok:
            shard.violate("C11/eval-differs", f"{label}: old object gives {old!r}, fresh gives {new!r}; {ctx}", case, "eval_vs_fresh")
        return ok
    a, b = to_np(old), to_np(new)
    rel = 1e-12 if precision == "64b" else 2e-5
    if label == "fit_objective":
        rel = 1e-6 if precision == "64b" else 5e-3
    probs = []
    if type(old) is not type(new):
        probs.append(f"tensor type {type(old).__name__} vs fresh {type(new).__name__}")
    do, dn = getattr(old, "dtype", None), getattr(new, "dtype", None)
    if str(do) != str(dn):
        probs.append(f"dtype {do} vs fresh {dn}")
    if a.shape != b.shape:
        probs.append(f"shape {a.shape} vs fresh {b.shape}")
    else:
        with np.errstate(all="ignore"):
            af, bf = a.astype(float), b.astype(float)
            close = np.abs(af - bf) <= rel * (np.abs(af) + np.abs(bf)) + (1e-300 if precision == "64b" else 1e-30)
            same = close | (~np.isfinite(af) & ~np.isfinite(bf)) | (af == bf)
        if not bool(np.all(same)):
            probs.append(f"values {af.ravel()[:5].tolist()} vs fresh {bf.ravel()[:5].tolist()}")
    if probs:
        shard.violate("C11/eval-differs", f"{label}: " + "; ".join(probs) + f"; {ctx}", case, "eval_vs_fresh")
        return False
    shard.ok("eval_vs_fresh")
    return True


def run_history(seed, shard, length):
    import pyhf

    rng = random.Random(seed)
    w = World(rng, shard)
    pyhf.set_backend("numpy", "scipy", precision="64b")
    state = ("numpy", "64b", "scipy")
    trace = []
    effective = 0
    switch_index = 0
    deletions_before_switch = 0
    pending_del = 0
    old_evals = 0
    case = {"seed": seed, "length": length, "trace": trace}
    for step in range(length):
        r = rng.random()
        if r < 0.34 or step == 0 and False:
            name = rng.choice(BACKENDS)
            prec = rng.choice(["64b", "64b", "32b"])
            opt = rng.choice(["scipy", "scipy", "minuit"])
            trace.append(["switch", name, prec, opt])
            try:
                pyhf.set_backend(name, opt, precision=prec)
            except Exception as e:
                shard.violate("C11/switch-raised", f"set_backend({name},{opt},{prec}) raised {type(e).__name__}: {str(e)[:200]} after {trace[-6:]}", case, "switch_ok")
                return
            tb, op_ = pyhf.get_backend()
            if tb.name != name or tb.precision != prec or op_.name != opt:
                shard.violate("C11/switch-state", f"after set_backend({name},{opt},{prec}) get_backend() reports {tb.name},{tb.precision},{op_.name}", case, "switch_ok")
            else:
                shard.ok("switch_ok")
            if (name, prec) != state[:2]:
                effective += 1
                switch_index += 1
                deletions_before_switch += pending_del
                pending_del = 0
            state = (name, prec, opt)
            shard.covered("states", f"{name}-{prec}-{opt}")
        elif r < 0.55 or not w.objects:
            kind, recipe = w.new_recipe()
            oid = w.next_oid
            w.next_oid += 1
            try:
                obj = w.make(kind, recipe)
            except Exception as e:
                shard.violate("C11/create-raised", f"creating {kind} under {state} raised {type(e).__name__}: {str(e)[:200]}", dict(case, recipe=recipe), "eval_vs_fresh")
                return
            w.objects[oid] = (kind, recipe, obj, switch_index)
            trace.append(["create", oid, kind])
            shard.covered("object_kinds", kind + ("(batched)" if kind == "model" and recipe["batch"] else ""))
        elif r < 0.67:
            oid = rng.choice(sorted(w.objects))
            kind, recipe, obj, born = w.objects.pop(oid)
            wr = weakref.ref(obj)
            del obj
            gc.collect()
            trace.append(["delete", oid, "collected" if wr() is None else "still referenced"])
            shard.covered("deletions", "collected" if wr() is None else "still referenced by pyhf/jit cache")
            pending_del += 1
        else:
            oid = rng.choice(sorted(w.objects))
            kind, recipe, obj, born = w.objects[oid]
            op = rng.choice(w.ops_for(kind))
            trace.append(["eval", oid, op, list(state)])
            ctx = f"object {kind}#{oid} born at switch {born}, now at switch {switch_index} state={state}, op={op}, recent trace={trace[-7:]}"
            old_exc = new_exc = None
            try:
                old = w.evaluate(kind, recipe, obj, op)
            except Exception as e:
                old_exc = e
            try:
                fresh_obj = w.make(kind, recipe)
                new = w.evaluate(kind, recipe, fresh_obj, op)
            except Exception as e:
                new_exc = e
            if old_exc is not None and new_exc is not None and type(old_exc) is type(new_exc):
                # the operation is not available in this state for any object (e.g. SLSQP refuses float32 gradients of
                # the 32-bit pytorch/tensorflow backends): old and fresh behave alike, which is all C11 asks
                shard.skip(f"operation raises {type(old_exc).__name__} for old and fresh object alike ({op} under {state[0]}-{state[1]})")
                continue
            if old_exc is not None:
                shard.violate("C11/eval-raised", f"{type(old_exc).__name__}: {str(old_exc)[:200]} (a fresh object {'raises ' + type(new_exc).__name__ if new_exc else 'evaluates fine'}); {ctx}", dict(case, recipe=recipe), "eval_vs_fresh")
                return
            if new_exc is not None:
                shard.skip(f"fresh object could not be evaluated: {type(new_exc).__name__}")
                continue
            for (la, oa), (lb, ob) in zip(old, new):
                if la != lb:
                    shard.skip("fit converged for one of old/fresh object only (32-bit optimiser noise)")
                    continue
                compare(shard, la, oa, ob, state[1], ctx, dict(case, recipe=recipe))
            if old and born < switch_index:
                old_evals += 1
                shard.covered("ops_on_objects_older_than_last_switch", f"{kind}:{op}")
            del fresh_obj
    if effective >= 2 and old_evals >= 1 and deletions_before_switch >= 1:
        shard.nontrivial([t[:3] if t[0] != "eval" else t[:3] + t[3] for t in trace])
    shard.maximum("history_length", length)
    return trace


def run_directed(seed, shard, backend):
    """A scripted history aimed at caches keyed on too little: the same model is fitted and evaluated under
    <backend>-32b, then under <backend>-64b, then back under numpy-64b, each time against a fresh model."""
    import pyhf

    rng = random.Random(seed)
    w = World(rng, shard)
    pyhf.set_backend("numpy", "scipy", precision="64b")
    kind, recipe = "model", {"spec": _spec(rng), "batch": None, "settings": {"histosys": {"interpcode": "code4p"}, "normsys": {"interpcode": "code4"}}, "seed": rng.randrange(1 << 30)}
    obj = w.make(kind, recipe)
    trace = [["create", 0, "model"]]
    case = {"seed": seed, "directed": backend, "trace": trace, "recipe": recipe}
    for step, (name, prec, opt) in enumerate([(backend, "32b", "scipy"), (backend, "64b", "scipy"), (backend, "32b", "minuit"), (backend, "64b", "minuit"), ("numpy", "64b", "scipy")]):
        trace.append(["switch", name, prec, opt])
        try:
            pyhf.set_backend(name, opt, precision=prec)
        except Exception as e:
            shard.violate("C11/switch-raised", f"set_backend({name},{opt},{prec}) raised {type(e).__name__}: {str(e)[:200]} in the directed history", case, "switch_ok")
            return
        shard.ok("switch_ok")
        for op in ("fit", "logpdf", "expected_data"):
            trace.append(["eval", 0, op, [name, prec, opt]])
            ctx = f"directed history {trace[-8:]}"
            old_exc = new_exc = None
            try:
                old = w.evaluate(kind, recipe, obj, op)
            except Exception as e:
                old_exc = e
            try:
                new = w.evaluate(kind, recipe, w.make(kind, recipe), op)
            except Exception as e:
                new_exc = e
            if old_exc is not None and new_exc is not None and type(old_exc) is type(new_exc):
                shard.skip(f"operation raises {type(old_exc).__name__} for old and fresh object alike ({op} under {name}-{prec})")
                continue
            if old_exc is not None:
                shard.violate("C11/eval-raised", f"{type(old_exc).__name__}: {str(old_exc)[:200]}; {ctx}", case, "eval_vs_fresh")
                return
            if new_exc is not None:
                continue
            for (la, oa), (lb, ob) in zip(old, new):
                if la == lb:
                    compare(shard, la, oa, ob, prec, ctx, case)
    shard.covered("directed_histories", f"{backend}: 32b -> 64b -> 32b/minuit -> 64b/minuit -> numpy")
    shard.nontrivial("directed", backend, seed)


def run_directed_created_at_32b(seed, shard, backend):
    """The mirror history: the model is CREATED under <backend>-32b (constants it precomputes then may carry float32
    rounding) and evaluated under 64-bit backends afterwards, each time against a model created on the spot."""
    import pyhf

    rng = random.Random(seed)
    w = World(rng, shard)
    try:
        pyhf.set_backend(backend, "scipy", precision="32b")
    except Exception as e:
        shard.violate("C11/switch-raised", f"set_backend({backend},scipy,32b) raised {type(e).__name__}: {str(e)[:200]}", {"seed": seed, "directed": backend}, "switch_ok")
        return
    kind, recipe = "model", {"spec": _spec(rng), "batch": None, "settings": {"histosys": {"interpcode": "code4p"}, "normsys": {"interpcode": "code4"}}, "seed": rng.randrange(1 << 30)}
    obj = w.make(kind, recipe)
    trace = [["switch", backend, "32b", "scipy"], ["create", 0, "model"]]
    case = {"seed": seed, "directed": backend, "created_at": "32b", "trace": trace, "recipe": recipe}
    for name, prec, opt in [(backend, "64b", "scipy"), ("numpy", "64b", "scipy"), (backend, "32b", "scipy"), ("pytorch" if backend != "pytorch" else "jax", "64b", "scipy")]:
        trace.append(["switch", name, prec, opt])
        try:
            pyhf.set_backend(name, opt, precision=prec)
        except Exception as e:
            shard.violate("C11/switch-raised", f"set_backend({name},{opt},{prec}) raised {type(e).__name__}: {str(e)[:200]} in the directed history", case, "switch_ok")
            return
        shard.ok("switch_ok")
        for op in ("logpdf", "expected_data"):
            trace.append(["eval", 0, op, [name, prec, opt]])
            ctx = f"directed history (model created under {backend}-32b) {trace[-8:]}"
            try:
                old = w.evaluate(kind, recipe, obj, op)
            except Exception as e:
                try:
                    w.evaluate(kind, recipe, w.make(kind, recipe), op)
                except Exception as e2:
                    if type(e2) is type(e):
                        shard.skip(f"operation raises {type(e).__name__} for old and fresh object alike ({op} under {name}-{prec})")
                        continue
                shard.violate("C11/eval-raised", f"{type(e).__name__}: {str(e)[:200]}; {ctx}", case, "eval_vs_fresh")
                return
            try:
                new = w.evaluate(kind, recipe, w.make(kind, recipe), op)
            except Exception:
                continue
            for (la, oa), (lb, ob) in zip(old, new):
                if la == lb:
                    compare(shard, la, oa, ob, prec, ctx, case)
    shard.covered("directed_histories", f"{backend}: created at 32b -> 64b -> numpy-64b -> 32b -> other backend 64b")


def plan(tier, seed):
    n = 6 if tier == "quick" else 150
    return [{"n": n, "seed": seed * 122949829 + i * 1000} for i in range(16)]


def run_shard(shard):
    import logging
    logging.disable(logging.CRITICAL)
    import warnings
    warnings.simplefilter("ignore")
    p = shard.params
    rng = random.Random(p["seed"])
    run_directed(p["seed"] + 77, shard, ["jax", "pytorch", "tensorflow", "jax"][shard.index % 4])
    run_directed_created_at_32b(p["seed"] + 78, shard, ["numpy", "pytorch", "jax", "tensorflow"][shard.index % 4])
    for k in range(p["n"]):
        length = rng.randint(6, 14)
        tr = run_history(p["seed"] + k, shard, length)
        if k == 0 and shard.index == 0 and tr:
            shard.sample({"history": tr})


def replay(rec, shard):
    import logging
    logging.disable(logging.CRITICAL)
    c = rec["case"]
    if c.get("directed"):
        run_directed(c["seed"], shard, c["directed"])
    else:
        run_history(c["seed"], shard, c["length"])
