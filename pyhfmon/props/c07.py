"""C07 — asymptotic p-values follow the formulae of arXiv:1007.1727.

Feed (a) scripted injection: the calculator's get_test_stat and generate_asimov_data are rebound
to stubs returning prescribed q then q_A, so the REAL AsymptoticCalculator.teststatistic /
distributions / pvalues / expected_pvalues and the real hypotest tuple assembly are driven over
the whole (q, q_A) plane on every backend.  Feed (b) capture during real hypotests lives in C08.
"""
import math
import random

from .. import refstats as RS
from .c03 import to_np

LEVEL = "exploration"
RULE = (
    "Scripted (q, q_A) pairs: q=0, tiny q_A, q=q_A and its floating-point neighbours on both sides (nextafter ladders), the "
    "qtilde branch q>q_A up to the 37-sigma representability boundary, random interior points x {q, qtilde, q0} x {normal, "
    "clipped_normal} x every backend (64-bit), through the calculator methods and through hypotest(return_tail_probs, "
    "return_expected_set); 30% of the cases reuse ONE calculator for 1-3 earlier (q, q_A) pairs first, as a scan over POI values does. A case = (q, q_A, statistic, base, backend); non-trivial when q is within 2^10 ulps of q_A, or q>q_A "
    "(qtilde), or an argument exceeds 8 sigma, or the clip is active (sqrt(q_A)<2)."
)
ASSUMPTIONS = [
    "mpmath Phi(x)=erfc(-x/sqrt2)/2 at 40 digits is the trusted base",
    "tolerance on probabilities: relative 1e-9 + 16*eps*(1+x^2) with x the Normal argument, absolute floor 16*min_normal; only tails below 37 sigma are judged (the property's own domain)",
    "the stubs replace only the test-statistic and Asimov-data functions; transform, distributions and p-value code are pyhf's",
]
REQUIRED = ("observed_pvalues", "expected_pvalues", "ordering", "hypotest_wiring")

EPS = 2.220446049250313e-16
FLOOR = 16 * 2.2250738585072014e-308


def gen_pair(rng):
    r = rng.random()
    qA = rng.choice([10 ** rng.uniform(-6, 0), 10 ** rng.uniform(-14, -6), rng.uniform(0.01, 30), rng.uniform(30, 600)])
    smax = 37.0
    if r < 0.12:
        q = 0.0
    elif r < 0.32:
        q = qA
        k = rng.choice([0, 1, 2, 4, 16, 1024])
        up = rng.random() < 0.5
        for _ in range(min(k, 16)):
            q = math.nextafter(q, math.inf if up else 0.0)
        if k > 16:
            q = q * (1 + (k * EPS if up else -k * EPS))
    elif r < 0.6:
        q = qA * rng.uniform(1.0, 6.0) ** 2  # qtilde second branch
    elif r < 0.8:
        q = rng.uniform(0, qA)
    else:
        q = rng.uniform(0, 35) ** 2
    # representability: all Normal arguments below 37
    sq, sqA = math.sqrt(q), math.sqrt(qA)
    args = [sq, abs(sq - sqA), (q + qA) / (2 * sqA), 2 + sqA]
    if max(args) > smax:
        scale = (smax / max(args)) ** 2 * 0.98
        q, qA = q * scale, qA * scale
    return q, qA


class Script:
    """Stubs for get_test_stat / generate_asimov_data."""

    def __init__(self):
        self.values = []
        self.calls = []

    def teststat(self, name):
        def fn(poi_test, data, pdf, init_pars, par_bounds, fixed_params, return_fitted_pars=False):
            import pyhf
            v = pyhf.tensorlib.astensor(self.values.pop(0))
            self.calls.append((name, poi_test, "asimov" if getattr(data, "_asimov", False) or data is ASIMOV else "data"))
            if return_fitted_pars:
                return v, (None, None)
            return v
        return fn

    def asimov(self, asimov_mu, data, pdf, init_pars, par_bounds, fixed_params, return_fitted_pars=False):
        self.calls.append(("asimov", asimov_mu, None))
        if return_fitted_pars:
            return ASIMOV, None
        return ASIMOV


ASIMOV = [12345.0]


def close(got, ref, arg):
    got = float(got)
    ref_f = float(ref)
    if not math.isfinite(got):
        return False
    tol = 1e-9 + 16 * EPS * (1 + arg * arg)
    return abs(RS.mp.mpf(got) - ref) <= tol * abs(ref) + FLOOR


def check_pair(case, shard, model):
    import pyhf
    from pyhf.infer import calculators, utils

    q, qA, ts, base, backend = case["q"], case["qA"], case["test_stat"], case["base"], case["backend"]
    script = Script()
    orig_gts, orig_gad = utils.get_test_stat, calculators.generate_asimov_data
    utils.get_test_stat = lambda name: script.teststat(name)
    calculators.generate_asimov_data = script.asimov
    try:
        data = [1.0] * (model.config.nmaindata + model.config.nauxdata)
        calc = calculators.AsymptoticCalculator(data, model, test_stat=ts, calc_base_dist=base)
        mu = 0.0 if ts == "q0" else 1.0
        # a scan reuses ONE calculator for several POI values: drive the earlier (q, q_A) pairs of the history
        # through the same object first; the answers for the current pair must not remember them
        for hq, hqA in case.get("history", []):
            script.values = [hq, hqA]
            hstat = calc.teststatistic(mu)
            hsb, hb = calc.distributions(mu)
            calc.pvalues(hstat, hsb, hb)
            calc.expected_pvalues(hsb, hb)
        script.calls.clear()
        script.values = [q, qA]
        teststat = calc.teststatistic(mu)
        sb, b = calc.distributions(mu)
        obs = [float(to_np(x)) for x in calc.pvalues(teststat, sb, b)]
        exp = calc.expected_pvalues(sb, b)
        exp = [[float(to_np(x)) for x in row] for row in exp]
        # the same through hypotest (real tuple assembly)
        script.values = [q, qA]
        res = pyhf.infer.hypotest(mu, data, model, test_stat=ts, calc_base_dist=base, return_tail_probs=True, return_expected_set=True, return_expected=True)
    finally:
        utils.get_test_stat, calculators.generate_asimov_data = orig_gts, orig_gad
    ctx = f"q={q!r} qA={qA!r} stat={ts} base={base} backend={backend}" + (f" after {case['history']} on the same calculator" if case.get("history") else "")
    # which statistic and which Asimov hypothesis were used
    used = [c for c in script.calls if c[0] != "asimov"]
    asim = [c for c in script.calls if c[0] == "asimov"]
    want_asimov_mu = 1.0 if ts == "q0" else 0.0
    if any(c[0] != ts for c in used) or any(a[1] != want_asimov_mu for a in asim) or [c[2] for c in used[:2]] != ["data", "asimov"]:
        shard.violate("C07/wrong-statistic-or-asimov", f"calls {script.calls[:6]}; {ctx}", case, "observed_pvalues")
    rsb, rb, rs, args = RS.asymptotic_pvalues(q, qA, ts)
    bad = []
    for label, g, r, a in (("CLsb", obs[0], rsb, args[0]), ("CLb", obs[1], rb, args[1]), ("CLs", obs[2], rs, max(abs(args[0]), abs(args[1])))):
        if not close(g, r, a):
            bad.append(f"{label}={g!r} formula={RS.mp.nstr(r, 17)}")
    if bad:
        branch = "qtilde-upper-branch" if (ts == "qtilde" and q > qA) else "sqrt-branch"
        shard.violate(f"C07/observed:{branch}", "; ".join(bad) + "; " + ctx, case, "observed_pvalues")
    else:
        shard.ok("observed_pvalues", 3)
    rexp = RS.expected_pvalues(qA, ts, base)
    bade = []
    for i, (esb, eb, es, t) in enumerate(rexp):
        a = abs(t) + math.sqrt(qA)
        for label, g, r in (("CLsb", exp[0][i], esb), ("CLb", exp[1][i], eb), ("CLs", exp[2][i], es)):
            if not close(g, r, a):
                bade.append(f"N={[2, 1, 0, -1, -2][i]} {label}={g!r} formula={RS.mp.nstr(r, 17)}")
    if bade:
        shard.violate(f"C07/expected:{base}", "; ".join(bade[:4]) + "; " + ctx, case, "expected_pvalues")
    else:
        shard.ok("expected_pvalues", 15)
    # ordering invariants (reference free)
    inv = []
    if not (0 <= obs[0] <= obs[1] * (1 + 1e-12) and obs[1] <= 1):
        inv.append(f"0<=CLsb<=CLb<=1 fails: {obs[0]!r}, {obs[1]!r}")
    if not (0 <= obs[2] <= 1 + 1e-12):
        inv.append(f"CLs={obs[2]!r} outside [0,1]")
    band = exp[0] if ts == "q0" else exp[2]
    if any(band[i] > band[i + 1] * (1 + 1e-12) + 1e-300 for i in range(4)):
        inv.append(f"band not non-decreasing: {band}")
    if inv:
        shard.violate("C07/ordering", "; ".join(inv) + "; " + ctx, case, "ordering")
    else:
        shard.ok("ordering", 3)
    # hypotest wiring: CLs (or CLsb for q0), tails, median, band equal the calculator values
    try:
        h_main = float(to_np(res[0]))
        h_tail = [float(to_np(x)) for x in res[1]]
        h_med = float(to_np(res[2]))
        h_band = [float(to_np(x)) for x in res[3]]
        if ts == "q0":
            ok = h_main == obs[0] and h_tail == [obs[1]] and h_band == exp[0] and h_med == exp[0][2]
        else:
            ok = h_main == obs[2] and h_tail == [obs[0], obs[1]] and h_band == exp[2] and h_med == exp[2][2]
    except Exception as e:
        ok = False
    if not ok or len(res) != 4:
        shard.violate("C07/hypotest-wiring", f"hypotest returned {[to_np(x).tolist() if not isinstance(x, list) else [float(to_np(y)) for y in x] for x in res]} but calculator gave obs={obs} exp_band={band}; {ctx}", case, "hypotest_wiring")
    else:
        shard.ok("hypotest_wiring")
    near = qA > 0 and abs(q - qA) <= 1100 * EPS * qA
    if near or (ts == "qtilde" and q > qA) or max(abs(args[0]), abs(args[1])) > 8 or (base == "clipped_normal" and math.sqrt(qA) < 2):
        shard.nontrivial(q, qA, ts, base, backend)
    if near:
        shard.covered("seam", "q within 2^10 ulps of qA")
    if base == "clipped_normal" and math.sqrt(qA) < 2:
        shard.covered("clip", "active")
    shard.covered("branches", "upper" if (ts == "qtilde" and q > qA) else "sqrt")
    if case.get("history"):
        shard.covered("calculator_reuse", f"{min(len(case['history']), 3)} earlier POI value(s) on the same calculator")
        if base == "clipped_normal":
            shard.covered("calculator_reuse", "clipped_normal with q_A " + ("smaller" if qA < case["history"][-1][1] else "larger") + " than at the previous POI value")
    shard.maximum("largest_normal_argument", max(abs(args[0]), abs(args[1])))


def plan(tier, seed):
    n = 260 if tier == "quick" else 24000
    bks = ["numpy"] * 5 + ["jax"] * 3 + ["pytorch"] * 4 + ["tensorflow"] * 4
    return [{"backend": b, "n": n if b in ("numpy", "pytorch") else n // 2, "seed": seed * 67867967 + i} for i, b in enumerate(bks)]


def run_shard(shard):
    import logging
    logging.disable(logging.CRITICAL)
    import pyhf

    p = shard.params
    pyhf.set_backend(p["backend"], precision="64b")
    shard.covered("backends", p["backend"])
    model = pyhf.simplemodels.uncorrelated_background([5.0], [50.0], [7.0])
    rng = random.Random(p["seed"])
    for k in range(p["n"]):
        q, qA = gen_pair(rng)
        ts = rng.choice(["q", "qtilde", "qtilde", "q0"])
        base = rng.choice(["normal", "clipped_normal"])
        case = {"q": q, "qA": qA, "test_stat": ts, "base": base, "backend": p["backend"]}
        if rng.random() < 0.3:
            case["history"] = [list(gen_pair(rng)) for _ in range(rng.randint(1, 3))]
        check_pair(case, shard, model)
        if k < 2 and shard.index == 0:
            shard.sample(case)


def replay(rec, shard):
    import logging
    logging.disable(logging.CRITICAL)
    import pyhf

    c = rec["case"]
    pyhf.set_backend(c["backend"], precision="64b")
    model = pyhf.simplemodels.uncorrelated_background([5.0], [50.0], [7.0])
    check_pair(c, shard, model)
