"""C12 — the model configuration is a consistent partition and honours overrides.

Contract (icontract postcondition when available, plain wrapper otherwise) on Model.__init__
plus monitors on Workspace.data / Workspace.build / Workspace.model.  Pure structural
predicates over the public configuration; permutation and mutation witnesses.
"""
import copy
import random

from .. import gen
from .c03 import to_np

LEVEL = "exploration"
RULE = (
    "Structural workspaces (1-4 channels, all modifier types, 1-3 measurements) x random override sets "
    "(inits/bounds/fixed/auxdata/sigmas/factors) x 4 simultaneous permutations of the channel, sample, modifier, "
    "measurement, parameter-config and observation lists. A case = (workspace, measurement, permutation); non-trivial "
    "when a bin-wise parameter set is not last in par_order, >=1 override is present and the listing order differs from "
    "the reported order; distinct by (shape signature, override signature, permutation index)."
)
ASSUMPTIONS = [
    "structural predicates are exact; likelihood comparisons between permuted specs use 1e-9 relative",
    "override kinds outside the schema are rejected before reaching the code and are not explored",
]
REQUIRED = ("partition", "overrides", "workspace_data", "permutation", "no_mutation", "build_roundtrip")

_contract_evals = [0]


class PartitionBroken(Exception):
    pass


def config_partition_problems(model):
    """Pure predicate over the public config; returns a list of problems (empty = holds)."""
    cfg = model.config
    probs = []
    nxt = 0
    for name in cfg.par_order:
        sl = cfg.par_slice(name)
        n = cfg.param_set(name).n_parameters
        if sl.start != nxt or sl.stop - sl.start != n or sl.step not in (None, 1):
            probs.append(f"slice of {name} is {sl} but next free index is {nxt} and n_parameters={n}")
        nxt = sl.stop
    if nxt != cfg.npars:
        probs.append(f"slices end at {nxt} but npars={cfg.npars}")
    for label, seq in (("suggested_init", cfg.suggested_init()), ("suggested_bounds", cfg.suggested_bounds()),
                       ("suggested_fixed", cfg.suggested_fixed()), ("par_names", cfg.par_names)):
        if len(seq) != cfg.npars:
            probs.append(f"{label} has {len(seq)} entries for npars={cfg.npars}")
    if len(set(cfg.par_names)) != len(cfg.par_names):
        probs.append("par_names not unique")
    nxt = 0
    for c in cfg.channels:
        sl = cfg.channel_slices[c]
        if sl.start != nxt or sl.stop - sl.start != cfg.channel_nbins[c]:
            probs.append(f"channel slice of {c} is {sl}, next free {nxt}, nbins {cfg.channel_nbins[c]}")
        nxt = sl.stop
    if nxt != cfg.nmaindata:
        probs.append(f"channel slices end at {nxt} but nmaindata={cfg.nmaindata}")
    naux = sum(cfg.param_set(n).n_parameters for n in cfg.auxdata_order)
    if naux != cfg.nauxdata or len(cfg.auxdata) != cfg.nauxdata:
        probs.append(f"nauxdata={cfg.nauxdata}, len(auxdata)={len(cfg.auxdata)}, sum over auxdata_order={naux}")
    for n in cfg.auxdata_order:
        if not cfg.param_set(n).constrained:
            probs.append(f"{n} in auxdata_order but unconstrained")
    for n in cfg.par_order:
        if cfg.param_set(n).constrained and n not in cfg.auxdata_order:
            probs.append(f"{n} constrained but missing from auxdata_order")
    if cfg.poi_name is not None:
        if cfg.poi_index != cfg.par_slice(cfg.poi_name).start:
            probs.append("poi_index != start of the POI slice")
    return probs


def _postcondition(self):
    _contract_evals[0] += 1
    probs = config_partition_problems(self)
    if probs:
        self.__dict__["_pyhfmon_partition_problems"] = probs
    return True  # recorded, not raised: the driver reads the attribute


def install_contract():
    """Attach the postcondition to pyhf.Model.__init__ (icontract if importable)."""
    import pyhf

    if getattr(pyhf.Model, "_pyhfmon_contract", False):
        return "already"
    orig = pyhf.Model.__init__
    try:
        import icontract

        def model_config_is_partition(self):
            return _postcondition(self)

        wrapped = icontract.ensure(model_config_is_partition, error=PartitionBroken)(orig)
        how = "icontract.ensure"
    except Exception:
        import functools

        @functools.wraps(orig)
        def wrapped(self, *a, **k):
            orig(self, *a, **k)
            _postcondition(self)

        how = "plain wrapper"
    pyhf.Model.__init__ = wrapped
    pyhf.Model._pyhfmon_contract = True
    import pyhf.pdf
    return how


def permute_workspace(rng, ws):
    w = copy.deepcopy(ws)
    rng.shuffle(w["channels"])
    for c in w["channels"]:
        rng.shuffle(c["samples"])
        for s in c["samples"]:
            rng.shuffle(s["modifiers"])
    rng.shuffle(w["observations"])
    rng.shuffle(w["measurements"])
    for m in w["measurements"]:
        rng.shuffle(m["config"]["parameters"])
    return w


def config_snapshot(model):
    cfg = model.config
    return {
        "par_order": list(cfg.par_order),
        "slices": [(n, cfg.par_slice(n).start, cfg.par_slice(n).stop) for n in cfg.par_order],
        "par_names": list(cfg.par_names),
        "init": list(cfg.suggested_init()),
        "bounds": [tuple(b) for b in cfg.suggested_bounds()],
        "fixed": list(cfg.suggested_fixed()),
        "auxdata": list(cfg.auxdata),
        "auxdata_order": list(cfg.auxdata_order),
        "channels": list(cfg.channels),
        "channel_slices": [(c, cfg.channel_slices[c].start, cfg.channel_slices[c].stop) for c in cfg.channels],
        "nmaindata": cfg.nmaindata,
        "nauxdata": cfg.nauxdata,
        "poi_index": cfg.poi_index,
        "poi_name": cfg.poi_name,
        "npars": cfg.npars,
    }


def check_case(case, shard):
    import pyhf

    ws_spec = case["ws"]
    rng = random.Random(case["seed"])
    ws_before = copy.deepcopy(ws_spec)
    ws = pyhf.Workspace(ws_spec)
    if ws_spec != ws_before:
        shard.violate("C12/workspace-mutates-spec", "Workspace() modified the caller's dict", case, "no_mutation")
    for mname in [m["name"] for m in ws_spec["measurements"]]:
        meas = next(m for m in ws_spec["measurements"] if m["name"] == mname)
        try:
            model = ws.model(measurement_name=mname)
        except Exception as e:
            shard.violate("C12/model-raised", f"Workspace.model({mname}) raised {type(e).__name__}: {str(e)[:200]}", case, "partition")
            continue
        if dict(ws) != ws_before or ws_spec != ws_before:
            shard.violate("C12/model-mutates-spec", "Workspace.model() modified the workspace or the caller's dict", case, "no_mutation")
        else:
            shard.ok("no_mutation")
        cfg = model.config
        # ---- partition (via the contract attached to Model.__init__)
        probs = model.__dict__.get("_pyhfmon_partition_problems") or config_partition_problems(model)
        if probs:
            shard.violate("C12/partition", "; ".join(probs)[:600], case, "partition")
        else:
            shard.ok("partition")
        if cfg.poi_name != meas["config"]["poi"]:
            shard.violate("C12/poi", f"poi_name {cfg.poi_name} != measurement poi {meas['config']['poi']}", case, "partition")
        # ---- overrides verbatim, defaults otherwise
        init, bounds, fixed, aux = cfg.suggested_init(), cfg.suggested_bounds(), cfg.suggested_fixed(), list(cfg.auxdata)
        aux_off, o = {}, 0
        for n in cfg.auxdata_order:
            aux_off[n] = o
            o += cfg.param_set(n).n_parameters
        user = {p["name"]: p for p in meas["config"]["parameters"]}
        idx = gen.spec_modifier_index({"channels": ws_spec["channels"]})
        for name in cfg.par_order:
            sl = cfg.par_slice(name)
            n = sl.stop - sl.start
            u = user.get(name, {})
            types = set(idx[name])
            ps = cfg.param_set(name)
            bad = []
            if "inits" in u:
                if list(init[sl]) != [float(x) if isinstance(x, int) else x for x in u["inits"]] and list(init[sl]) != list(u["inits"]):
                    bad.append(f"inits {init[sl]} != override {u['inits']}")
            else:
                default = {"normfactor": 1.0, "shapefactor": 1.0, "shapesys": 1.0, "staterror": 1.0, "normsys": 0.0, "histosys": 0.0}.get(sorted(types)[0])
                if default is not None and list(init[sl]) != [default] * n:
                    bad.append(f"default inits {init[sl]} != {[default] * n}")
            if "bounds" in u:
                if [tuple(b) for b in bounds[sl]] != [tuple(b) for b in u["bounds"]]:
                    bad.append(f"bounds {bounds[sl]} != override {u['bounds']}")
            else:
                default = {"normfactor": (0, 10), "shapefactor": (0.0, 10.0), "shapesys": (1e-10, 10.0), "staterror": (1e-10, 10.0), "normsys": (-5.0, 5.0), "histosys": (-5.0, 5.0)}.get(sorted(types)[0])
                if default is not None and [tuple(b) for b in bounds[sl]] != [default] * n:
                    bad.append(f"default bounds {bounds[sl]} != {default}")
            if "fixed" in u:
                if list(fixed[sl]) != [u["fixed"]] * n:
                    bad.append(f"fixed {fixed[sl]} != override {u['fixed']}")
            elif not (types & {"shapesys", "staterror"}):
                if list(fixed[sl]) != [False] * n:
                    bad.append(f"default fixed {fixed[sl]} is not all False")
            if ps.constrained:
                a = aux[aux_off[name]: aux_off[name] + n]
                if "auxdata" in u:
                    if list(a) != list(u["auxdata"]):
                        bad.append(f"auxdata {a} != override {u['auxdata']}")
                elif types <= {"normsys", "histosys"} and list(a) != [0.0]:
                    bad.append(f"default auxdata {a} != [0.0]")
                elif types == {"staterror"} and list(a) != [1.0] * n:
                    bad.append(f"default auxdata {a} != ones")
                if "sigmas" in u and list(getattr(ps, "sigmas", [])) != list(u["sigmas"]):
                    bad.append(f"sigmas {getattr(ps, 'sigmas', None)} != override {u['sigmas']}")
                if "factors" in u and list(getattr(ps, "factors", [])) != list(u["factors"]):
                    bad.append(f"factors {getattr(ps, 'factors', None)} != override {u['factors']}")
                # ... and in the constraint terms themselves, read off the model (not off the parameter-set report):
                #  Poisson sets: the expected auxiliary counts are gamma x factors;
                #  Gaussian sets: moving the auxiliary datum one configured sigma away from the parameter costs exactly 1/2.
                try:
                    tb = pyhf.tensorlib
                    pt = [float(v) for v in init]
                    for i_ in range(sl.start, sl.stop):
                        lo_, hi_ = bounds[i_]
                        pt[i_] = float(min(max(pt[i_] * 1.07 + 0.013, lo_), hi_))
                    o0 = aux_off[name]
                    if ps.pdf_type == "poisson":
                        want_f = list(u["factors"]) if "factors" in u else list(getattr(ps, "factors", []))
                        ea = [float(x) for x in to_np(model.expected_auxdata(tb.astensor(pt)))][o0: o0 + n]
                        exp_ = [g_ * f_ for g_, f_ in zip(pt[sl], want_f)]
                        if "factors" in u and any(abs(a_ - b_) > 1e-9 * (abs(b_) + 1) for a_, b_ in zip(ea, exp_)):
                            bad.append(f"constraint term expects auxiliary counts {ea}, gamma x configured factors = {exp_}")
                    elif ps.pdf_type == "normal" and ("sigmas" in u or types <= {"normsys", "histosys"}):
                        want_s = list(u["sigmas"]) if "sigmas" in u else [1.0] * n
                        a0 = list(aux)
                        for j_ in range(n):
                            a0[o0 + j_] = pt[sl.start + j_]
                        base_c = float(to_np(model.constraint_logpdf(tb.astensor(a0), tb.astensor(pt))).reshape(-1)[0])
                        for j_ in range(n):
                            a1 = list(a0)
                            a1[o0 + j_] = a0[o0 + j_] + want_s[j_]
                            d_ = float(to_np(model.constraint_logpdf(tb.astensor(a1), tb.astensor(pt))).reshape(-1)[0]) - base_c
                            if abs(d_ + 0.5) > 1e-9:
                                bad.append(f"constraint term of component {j_}: one configured sigma ({want_s[j_]}) changes the log-density by {d_!r}, not -0.5")
                                break
                    shard.covered("constraint_terms_read_off_the_model", ps.pdf_type)
                except Exception as e_:
                    bad.append(f"constraint term could not be evaluated: {type(e_).__name__}: {str(e_)[:120]}")
            if bad:
                shard.violate("C12/override-or-default", f"parameter {name} ({sorted(types)}): " + "; ".join(bad)[:500], case, "overrides")
            else:
                shard.ok("overrides")
                for k in u:
                    if k != "name":
                        shard.covered("override_kinds", f"{sorted(types)[0]}:{k}")
        # ---- Workspace.data layout, under permutations of the observation list
        obs = {o_["name"]: o_["data"] for o_ in ws_spec["observations"]}
        expect = [x for c in cfg.channels for x in obs[c]]
        for incl in (True, False):
            got = ws.data(model, include_auxdata=incl)
            want = expect + (list(cfg.auxdata) if incl else [])
            if list(got) != want:
                shard.violate("C12/workspace-data-layout", f"Workspace.data(include_auxdata={incl}) = {list(got)[:12]}... expected {want[:12]}...", case, "workspace_data")
            else:
                shard.ok("workspace_data")
        if ws.observations != obs:
            shard.violate("C12/data-mutates-observations", "Workspace.data() modified the stored observations", case, "no_mutation")
        got2 = ws.data(model)
        if list(got2) != expect + list(cfg.auxdata) or list(cfg.auxdata) != aux:
            shard.violate("C12/data-not-repeatable", "a second Workspace.data() call returned something else (aliasing)", case, "workspace_data")
        # ---- the data vector follows the MODEL's layout also when the model covers fewer channels than the workspace
        # (a model of the pruned workspace, or of a patch that removes a channel, given to the full workspace)
        if len(cfg.channels) >= 2:
            drop = sorted(cfg.channels)[rng.randrange(len(cfg.channels))]
            ci = next(i for i, c_ in enumerate(ws_spec["channels"]) if c_["name"] == drop)
            sub_models = []
            try:
                sub_models.append(("pruned workspace", ws.prune(channels=[drop]).model(measurement_name=mname)))
            except Exception:
                pass
            try:
                oi = next(i for i, o_ in enumerate(ws_spec["observations"]) if o_["name"] == drop)
                sub_models.append(("patch removing a channel", ws.model(measurement_name=mname, patches=[[{"op": "remove", "path": f"/channels/{ci}"}, {"op": "remove", "path": f"/observations/{oi}"}]])))
            except Exception:
                pass
            for how, m2 in sub_models:
                if drop in m2.config.channels:
                    continue
                want2 = [x for c in m2.config.channels for x in obs[c]] + list(m2.config.auxdata)
                try:
                    got3 = list(ws.data(m2))
                except Exception as e_:
                    got3 = f"{type(e_).__name__}: {str(e_)[:100]}"
                if got3 != want2:
                    shard.violate("C12/workspace-data-layout", f"Workspace.data(model of the {how}, channel {drop} gone) = {str(got3)[:200]}, the model's layout needs {want2[:12]}... ({len(want2)} entries)", case, "workspace_data")
                else:
                    shard.ok("workspace_data")
                    shard.covered("workspace_data_models", how)
        # ---- permutations: identical config and likelihood
        snap = config_snapshot(model)
        pars = gen.gen_point(rng, bounds)
        data = ws.data(model)
        try:
            base_val = float(to_np(model.logpdf(pars, data))[0])
        except Exception:
            base_val = None
        for k in range(3):
            pw = permute_workspace(rng, ws_spec)
            w2 = pyhf.Workspace(pw)
            m2 = w2.model(measurement_name=mname)
            snap2 = config_snapshot(m2)
            diff = [key for key in snap if snap[key] != snap2[key]]
            if diff:
                shard.violate("C12/permutation-changes-config", f"permuting the listing order changed {diff}: {[(snap[d], snap2[d]) for d in diff][:2]}", dict(case, permuted=pw), "permutation")
                continue
            d2 = w2.data(m2)
            if list(d2) != list(data):
                shard.violate("C12/permutation-changes-data", "permuting the listing order changed Workspace.data", dict(case, permuted=pw), "permutation")
                continue
            if base_val is not None:
                v2 = float(to_np(m2.logpdf(pars, d2))[0])
                same = (v2 == base_val) or abs(v2 - base_val) <= 1e-9 * (abs(base_val) + 1) or (v2 != v2 and base_val != base_val)
                if not same:
                    shard.violate("C12/permutation-changes-likelihood", f"logpdf {base_val!r} -> {v2!r} after permuting listing order", dict(case, permuted=pw, pars=pars), "permutation")
                    continue
            shard.ok("permutation")
        # ---- Workspace.build(model, data) reproduces config, likelihood and data
        fixed_sets_ok = True
        for name in cfg.par_order:
            f = cfg.param_set(name).suggested_fixed
            if len(set(f)) > 1:
                fixed_sets_ok = False
        has_extra = False
        if True:
            try:
                wb = pyhf.Workspace.build(model, data)
                mb = wb.model()
                errb = None
            except Exception as e:
                errb = e
            if errb is not None:
                mech = "C12/workspace-build-raised"
                if not fixed_sets_ok and isinstance(errb, RuntimeError) and "not compressible" in str(errb):
                    mech = "C12/workspace-build-partly-fixed"
                elif "lumi" in cfg.par_order:
                    mech = "C12/workspace-build-lumi"
                shard.violate(mech, f"Workspace.build(model, data).model() raised {type(errb).__name__}: {str(errb)[:200]}", case, "build_roundtrip")
            else:
                snapb = config_snapshot(mb)
                keys = ["par_order", "slices", "par_names", "init", "bounds", "fixed", "channels", "channel_slices", "nmaindata", "nauxdata", "poi_index", "poi_name", "npars", "auxdata_order"]
                if not has_extra:
                    keys.append("auxdata")
                diff = [key for key in keys if snap[key] != snapb[key]]
                db = wb.data(mb, include_auxdata=False)
                if diff:
                    shard.violate("C12/workspace-build-config", f"rebuilt model differs in {diff}: {[(snap[d], snapb[d]) for d in diff][:2]}", case, "build_roundtrip")
                elif list(db) != list(data[: cfg.nmaindata]):
                    shard.violate("C12/workspace-build-data", f"rebuilt data {list(db)[:8]} != {list(data[:8])}", case, "build_roundtrip")
                else:
                    if base_val is not None and not has_extra:
                        vb = float(to_np(mb.logpdf(pars, data))[0])
                        if not (vb == base_val or abs(vb - base_val) <= 1e-9 * (abs(base_val) + 1) or (vb != vb and base_val != base_val)):
                            shard.violate("C12/workspace-build-likelihood", f"logpdf {base_val!r} -> {vb!r} on the rebuilt workspace", dict(case, pars=pars), "build_roundtrip")
                        else:
                            shard.ok("build_roundtrip")
                    else:
                        shard.ok("build_roundtrip")
                        if has_extra:
                            shard.skip("build: auxdata/sigmas/factors overrides are not carried by Workspace.build (only config compared)")
        # non-triviality
        binwise_not_last = any(cfg.param_set(n).n_parameters > 1 for n in cfg.par_order[:-1])
        listing = [c["name"] for c in ws_spec["channels"]]
        if binwise_not_last and user and (listing != cfg.channels or len(listing) == 1):
            shard.nontrivial(tuple(sorted((len(c["samples"][0]["data"]), len(c["samples"])) for c in ws_spec["channels"])),
                             sorted((n, sorted(k for k in u if k != "name")) for n, u in user.items()), mname)
    shard.covered("n_measurements", len(ws_spec["measurements"]))


def make_case(seed):
    import pyhf

    rng = random.Random(seed)
    ws, info = gen.gen_workspace(rng)
    # add overrides to each measurement, using the component counts the model itself reports
    base = pyhf.Workspace(ws).model()
    npar = {k: base.config.param_set(k).n_parameters for k in base.config.par_order}
    for m in ws["measurements"]:
        spec = {"channels": ws["channels"], "parameters": m["config"]["parameters"]}
        gen.add_overrides(rng, spec, npar, prob=0.5)
        m["config"]["parameters"] = spec["parameters"]
    return {"seed": seed, "ws": ws}


def plan(tier, seed):
    n = 320 if tier == "quick" else 8000
    nsh = 16
    per = n // nsh
    return [{"start": seed * 49979687 + i * per, "count": per} for i in range(nsh)]


def run_shard(shard):
    import logging
    logging.disable(logging.CRITICAL)
    how = install_contract()
    shard.covered("contract", how)
    p = shard.params
    for k in range(p["count"]):
        case = make_case(p["start"] + k)
        check_case(case, shard)
        if k == 0 and shard.index == 0:
            shard.sample(case)
    shard.counters["contract_evaluations"] += _contract_evals[0]
    if _contract_evals[0] == 0:
        shard.inconclusive_because("the Model.__init__ postcondition never ran")


def replay(rec, shard):
    import logging
    logging.disable(logging.CRITICAL)
    install_contract()
    case = rec["case"]
    for k in ("permuted", "pars"):
        case.pop(k, None)
    check_case(case, shard)
