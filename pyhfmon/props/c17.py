"""C17 — patch sets look up, verify and apply patches exactly (fault enumeration).

Monitors sit on the public observation points PatchSet(spec), __getitem__/__iter__/__len__,
verify, apply and utils.digest.  Oracles: lookup grammar, iff-verification under EVERY
single-leaf corruption of the verified workspace, an independent RFC-6902 interpreter.
"""
import copy
import hashlib
import json
import random

from .. import gen
from ..core import digest as sigdigest

LEVEL = "fault_enumeration"
RULE = (
    "Generated patch-set documents (1-6 patches, 1-3 labels, numeric/string values, names drawn from a pool "
    "containing the words pyhf uses internally, all six RFC-6902 operations) over generated background "
    "workspaces; for each document every single-leaf corruption of the workspace is enumerated (exhaustive per "
    "document, not over documents). A case is non-trivial when the document has >=2 patches, >=1 reserved-word "
    "name and both digest algorithms; distinct by (names, values, op kinds, workspace shape)."
)
ASSUMPTIONS = [
    "hashlib and json.dumps are the trusted base of the independent digest",
    "the independent RFC-6902 interpreter in this file is correct (60 lines, no shared code with jsonpatch)",
    "documents beyond the generator bounds (more than 6 patches / 3 labels) are not explored",
]
REQUIRED = ("accept", "lookup_hit", "lookup_miss", "verify_ok", "verify_corrupt", "apply", "apply_aliasing")

RESERVED = ["name", "values", "metadata", "patches", "labels", "digests", "patch", "version"]
PLAIN = ["sig_100", "m1_300_m2_100", "A", "b2", "point_7", "x", "SUSY_1000", "n0", "v"]


# ---------------------------------------------------------------- independent RFC 6902
class RefPatchError(Exception):
    pass


def _ptr(path):
    if path == "":
        return []
    if not path.startswith("/"):
        raise RefPatchError("bad pointer")
    return [p.replace("~1", "/").replace("~0", "~") for p in path[1:].split("/")]


def _walk(doc, parts):
    cur = doc
    for p in parts:
        if isinstance(cur, list):
            cur = cur[int(p)]
        elif isinstance(cur, dict):
            cur = cur[p]
        else:
            raise RefPatchError("cannot descend")
    return cur


def _add(doc, parts, value):
    if not parts:
        return value
    parent = _walk(doc, parts[:-1])
    last = parts[-1]
    if isinstance(parent, list):
        if last == "-":
            parent.append(value)
        else:
            i = int(last)
            if i < 0 or i > len(parent):
                raise RefPatchError("index")
            parent.insert(i, value)
    else:
        parent[last] = value
    return doc


def _remove(doc, parts):
    parent = _walk(doc, parts[:-1])
    last = parts[-1]
    if isinstance(parent, list):
        return parent.pop(int(last))
    return parent.pop(last)


def ref_apply(doc, ops):
    doc = copy.deepcopy(doc)
    for op in ops:
        kind = op["op"]
        parts = _ptr(op["path"])
        try:
            if kind == "add":
                doc = _add(doc, parts, copy.deepcopy(op["value"]))
            elif kind == "remove":
                _remove(doc, parts)
            elif kind == "replace":
                _walk(doc, parts)  # must exist
                parent = _walk(doc, parts[:-1])
                if isinstance(parent, list):
                    parent[int(parts[-1])] = copy.deepcopy(op["value"])
                else:
                    parent[parts[-1]] = copy.deepcopy(op["value"])
            elif kind == "move":
                v = _remove(doc, _ptr(op["from"]))
                doc = _add(doc, parts, v)
            elif kind == "copy":
                v = copy.deepcopy(_walk(doc, _ptr(op["from"])))
                doc = _add(doc, parts, v)
            elif kind == "test":
                if _walk(doc, parts) != op["value"]:
                    raise RefPatchError("test failed")
            else:
                raise RefPatchError("unknown op")
        except (KeyError, IndexError, ValueError, TypeError) as e:
            raise RefPatchError(repr(e))
    return doc


def ref_digest(obj, algorithm):
    return getattr(hashlib, algorithm)(
        json.dumps(obj, sort_keys=True, ensure_ascii=False).encode("utf8")
    ).hexdigest()


# ---------------------------------------------------------------- generators
def leaves(doc, path=()):
    """Yield (path, value) for every scalar leaf, plus ('drop', path) markers for list elements."""
    if isinstance(doc, dict):
        for k in doc:
            yield from leaves(doc[k], path + (k,))
    elif isinstance(doc, list):
        for i, v in enumerate(doc):
            yield from leaves(v, path + (i,))
        if len(doc) > 0:
            yield path + ("<drop-last>",), None
    else:
        yield path, doc


def corrupt(doc, path):
    d = copy.deepcopy(doc)
    if path[-1] == "<drop-last>":
        _walk_t(d, path[:-1]).pop()
        return d
    parent = _walk_t(d, path[:-1])
    v = parent[path[-1]]
    if isinstance(v, bool):
        parent[path[-1]] = not v
    elif isinstance(v, (int, float)):
        parent[path[-1]] = v + 1 if v != 0 else 0.5
    elif isinstance(v, str):
        parent[path[-1]] = v + "_"
    elif v is None:
        parent[path[-1]] = 0
    return d


def _walk_t(doc, path):
    cur = doc
    for p in path:
        cur = cur[p]
    return cur


def scramble(doc):
    """Edit every leaf of a JSON-like container in place."""
    if isinstance(doc, dict):
        for k in list(doc):
            if isinstance(doc[k], (dict, list)):
                scramble(doc[k])
            elif isinstance(doc[k], bool) or doc[k] is None:
                doc[k] = 7
            elif isinstance(doc[k], (int, float)):
                doc[k] = doc[k] + 1.5
            elif isinstance(doc[k], str):
                doc[k] = doc[k] + "_edited"
    elif isinstance(doc, list):
        for i in range(len(doc)):
            if isinstance(doc[i], (dict, list)):
                scramble(doc[i])
            elif isinstance(doc[i], (int, float)) and not isinstance(doc[i], bool):
                doc[i] = doc[i] + 1.5
            elif isinstance(doc[i], str):
                doc[i] = doc[i] + "_edited"


def shuffle_keys(rng, doc):
    if isinstance(doc, dict):
        ks = list(doc)
        rng.shuffle(ks)
        return {k: shuffle_keys(rng, doc[k]) for k in ks}
    if isinstance(doc, list):
        return [shuffle_keys(rng, v) for v in doc]
    return doc


def gen_ops(rng, ws):
    """An RFC-6902 operation list that keeps the workspace schema-valid."""
    ops = []
    kinds = []
    cur = copy.deepcopy(ws)
    n = rng.randint(1, 4)
    for _ in range(n):
        kind = rng.choice(["add", "remove", "replace", "move", "copy", "test", "replace_container"])
        ci = rng.randrange(len(cur["channels"]))
        ch = cur["channels"][ci]
        si = rng.randrange(len(ch["samples"]))
        smp = ch["samples"][si]
        nb = len(smp["data"])
        if kind == "replace_container":
            # a whole sample replaced by an edited copy, then a later operation reaching INTO what was just put in
            newsmp = copy.deepcopy(smp)
            newsmp["data"] = [round(v * 1.1 + 0.25, 3) for v in newsmp["data"]]
            pair = [{"op": "replace", "path": f"/channels/{ci}/samples/{si}", "value": newsmp},
                    {"op": "replace", "path": f"/channels/{ci}/samples/{si}/data/{rng.randrange(nb)}", "value": round(rng.uniform(1, 99), 3)}]
            try:
                cur = ref_apply(cur, copy.deepcopy(pair))
            except RefPatchError:
                continue
            ops.extend(pair)
            kinds.extend(["replace_container", "replace"])
            continue
        if kind == "add":
            newname = f"new_sig_{rng.randrange(1000)}"
            if any(s["name"] == newname for s in ch["samples"]):
                continue
            pos = rng.choice(["-", str(rng.randint(0, len(ch["samples"])))])
            op = {"op": "add", "path": f"/channels/{ci}/samples/{pos}",
                  "value": {"name": newname, "data": [round(rng.uniform(0.5, 9), 3) for _ in range(nb)],
                            "modifiers": [{"name": "mu", "type": "normfactor", "data": None}]}}
        elif kind == "remove":
            if not smp["modifiers"]:
                continue
            mi = rng.randrange(len(smp["modifiers"]))
            op = {"op": "remove", "path": f"/channels/{ci}/samples/{si}/modifiers/{mi}"}
        elif kind == "replace":
            bi = rng.randrange(nb)
            op = {"op": "replace", "path": f"/channels/{ci}/samples/{si}/data/{bi}", "value": round(rng.uniform(1, 99), 3)}
        elif kind == "move":
            if len(ch["samples"]) < 2:
                continue
            sj = rng.randrange(len(ch["samples"]))
            op = {"op": "move", "from": f"/channels/{ci}/samples/{si}", "path": f"/channels/{ci}/samples/{sj}"}
        elif kind == "copy":
            oi = rng.randrange(len(cur["observations"]))
            oj = rng.randrange(len(cur["observations"]))
            op = {"op": "copy", "from": f"/observations/{oi}/data", "path": f"/observations/{oj}/data"}
        else:
            op = {"op": "test", "path": f"/channels/{ci}/name", "value": ch["name"]}
        try:
            cur = ref_apply(cur, [op])
        except RefPatchError:
            continue
        ops.append(op)
        kinds.append(kind)
    if not ops:
        ops = [{"op": "test", "path": "/version", "value": "1.0.0"}]
        kinds = ["test"]
    return ops, kinds


def gen_patchset(rng, ws, want_dup=None):
    nlab = rng.randint(1, 3)
    labels = rng.sample(["m1", "m2", "mass", "tanb", "x"], nlab)
    npatch = rng.randint(1, 6)
    pool = RESERVED + PLAIN
    names = rng.sample(pool, npatch)
    values = []
    seen = set()
    while len(values) < npatch:
        v = []
        for _ in range(nlab):
            r = rng.random()
            if r < 0.5:
                v.append(rng.choice([100, 200, 300, 400, 500, 0, 1]))
            elif r < 0.8:
                v.append(round(rng.uniform(0, 50), 2))
            else:
                v.append(rng.choice(["low", "high", "name", "values", "A"]))
        if tuple(v) in seen:
            continue
        seen.add(tuple(v))
        values.append(v)
    if want_dup == "name" and npatch >= 2:
        names[-1] = names[0]
    if want_dup == "values" and npatch >= 2:
        values[-1] = list(values[0])
    if want_dup == "values_numeric_equal" and npatch >= 2:
        # 100 and 100.0 are the same JSON number: the tuples are equal
        values[0] = [100] * nlab
        values[-1] = [100.0] * nlab
    patches = []
    kinds_all = []
    for nme, val in zip(names, values):
        ops, kinds = gen_ops(rng, ws)
        if rng.random() < (0.5 if (want_dup and not patches) else 0.12):
            # a patch without operations is schema-valid: it stands for the background-only point itself
            ops, kinds = [], ["empty"]
        kinds_all.append(kinds)
        md = {"name": nme, "values": val}
        if rng.random() < 0.3:
            md["extra"] = "note"
        patches.append({"metadata": md, "patch": ops})
    algs = rng.choice([["sha256"], ["md5"], ["sha256", "md5"], ["md5", "sha256"]])
    digests = {a: ref_digest(ws, a) for a in algs}
    doc = {
        "metadata": {"references": {"hepdata": "ins1234567"}, "description": "generated",
                     "digests": digests, "labels": labels},
        "patches": patches,
        "version": "1.0.0",
    }
    return doc, kinds_all


# ---------------------------------------------------------------- the monitors
def check_case(case, shard, exhaustive=True):
    import pyhf
    from pyhf import exceptions as E

    ws = case["ws"]
    doc = case["doc"]
    dup = case.get("dup")
    names = [p["metadata"]["name"] for p in doc["patches"]]
    values = [tuple(p["metadata"]["values"]) for p in doc["patches"]]
    doc_before = copy.deepcopy(doc)

    # --- acceptance / rejection
    try:
        ps = pyhf.PatchSet(doc)
        accepted, err = True, None
    except Exception as e:  # noqa
        accepted, err = False, e
    really_dup = len(set(names)) < len(names) or len(set(values)) < len(values)
    if really_dup:
        if accepted:
            shard.violate("C17/duplicate-accepted", f"duplicate {dup} patch accepted: names={names} values={values}", case, "reject")
        elif not isinstance(err, E.InvalidPatchSet):
            shard.violate("C17/duplicate-wrong-exception", f"{type(err).__name__}: {err}", case, "reject")
        else:
            shard.ok("reject")
        return
    if not accepted:
        reserved = sorted(set(names) & set(RESERVED))
        mech = "C17/valid-document-rejected"
        if isinstance(err, E.InvalidPatchSet) and reserved:
            mech = "C17/reserved-word-name-rejected"
        shard.violate(mech, f"valid document rejected ({type(err).__name__}: {str(err)[:200]}); names={names}", case, "accept")
        return
    shard.ok("accept")
    if doc != doc_before:
        shard.violate("C17/document-mutated", "PatchSet() modified the caller's document", case, "accept")

    # --- len / iter
    if len(ps) != len(names) or [p.name for p in ps] != names:
        shard.violate("C17/iteration-order", f"len/iter mismatch: {[p.name for p in ps]} vs {names}", case, "iter")
    else:
        shard.ok("iter")

    # --- lookup hits
    for i, (nme, val) in enumerate(zip(names, values)):
        for key in (nme, list(val), tuple(val)):
            try:
                p = ps[key]
            except Exception as e:
                shard.violate("C17/lookup-hit-raised", f"ps[{key!r}] raised {type(e).__name__}", case, "lookup_hit")
                continue
            if p is not ps.patches[i] or p.name != nme or p.values != val or list(p) != doc["patches"][i]["patch"]:
                shard.violate("C17/lookup-wrong-patch", f"ps[{key!r}] returned {p!r}", case, "lookup_hit")
            else:
                shard.ok("lookup_hit")
    # --- lookup misses
    miss_keys = [k for k in RESERVED + PLAIN + ["", "Name", "nope"] if k not in names]
    miss_keys += [(), (1,), ("name",), ("values",), tuple(values[0]) + (1,), 0, 1, -1, None, 3.5, True]
    miss_keys += [list(values[0]) + ["x"], []]
    for v in values:
        if len(v) > 1 and tuple(reversed(v)) not in values:
            miss_keys.append(tuple(reversed(v)))
    for key in miss_keys:
        kk = tuple(key) if isinstance(key, list) else key
        if kk in values or kk in names:
            continue
        try:
            got = ps[key]
        except E.InvalidPatchLookup:
            shard.ok("lookup_miss")
            continue
        except Exception as e:
            shard.violate("C17/lookup-miss-wrong-exception", f"ps[{key!r}] raised {type(e).__name__}", case, "lookup_miss")
            continue
        mech = "C17/lookup-miss-returned"
        if key in ("name", "values"):
            mech = "C17/reserved-word-lookup-returned"
        shard.violate(mech, f"ps[{key!r}] returned {got!r} instead of raising InvalidPatchLookup", case, "lookup_miss")

    # --- verify: succeeds on the verified workspace (also with permuted key order)
    rng = random.Random(case["seed"])
    for variant, w in (("same", ws), ("keys-permuted", shuffle_keys(rng, ws)), ("deepcopy", copy.deepcopy(ws))):
        try:
            r = ps.verify(w)
            shard.ok("verify_ok")
        except Exception as e:
            shard.violate("C17/verify-rejects-good", f"verify({variant}) raised {type(e).__name__}: {str(e)[:150]}", case, "verify_ok")
    # digest itself
    for alg in ("sha256", "md5", "sha1"):
        d1 = pyhf.utils.digest(ws, algorithm=alg)
        d2 = pyhf.utils.digest(shuffle_keys(rng, ws), algorithm=alg)
        if d1 != ref_digest(ws, alg) or d1 != d2:
            shard.violate("C17/digest-value", f"digest({alg}) differs from reference or depends on key order", case, "digest")
        else:
            shard.ok("digest")
    # --- verify: must fail under every single-leaf corruption
    lv = list(leaves(ws))
    if not exhaustive and len(lv) > 60:
        lv = rng.sample(lv, 60)
    for path, _ in lv:
        bad = corrupt(ws, path)
        if bad == ws:
            shard.skip("corruption was a no-op")
            continue
        try:
            ps.verify(bad)
        except E.PatchSetVerificationError:
            shard.ok("verify_corrupt")
            continue
        except Exception as e:
            shard.violate("C17/verify-wrong-exception", f"{type(e).__name__} at {path}", case, "verify_corrupt")
            continue
        shard.violate("C17/verify-accepts-corrupted", f"verify accepted a workspace corrupted at {list(path)}", {**case, "corrupt_path": list(path)}, "verify_corrupt")
    # --- the same through ONE pyhf.Workspace object with a past: digested and verified first, then a deep copy edited in
    # place at a leaf, finally the object itself edited in place - verification and digest must see every edit
    try:
        W = pyhf.Workspace(copy.deepcopy(ws))
    except Exception:
        W = None
    if W is not None:
        hist_probs = []
        try:
            ps.verify(W)
            for alg in list(doc["metadata"]["digests"]) + ["sha256"]:
                pyhf.utils.digest(W, algorithm=alg)
            hl = [pth for pth, _ in leaves(ws)]
            for path in rng.sample(hl, min(8, len(hl))) + ["<in-place>"]:
                if path == "<in-place>":
                    path = rng.choice(hl)
                    badW = W
                    parent = _walk_t(badW, path[:-1])
                    if path[-1] == "<drop-last>":
                        parent.pop()
                    else:
                        parent[path[-1]] = _walk_t(corrupt(ws, path), path[:-1])[path[-1]]
                    how = f"the verified object edited in place at {list(path)}"
                else:
                    badW = corrupt(W, path)
                    how = f"a deep copy of the verified object edited at {list(path)}"
                if json.loads(json.dumps(badW)) == ws:
                    continue
                for alg in list(doc["metadata"]["digests"]):
                    if pyhf.utils.digest(badW, algorithm=alg) != ref_digest(json.loads(json.dumps(badW)), alg):
                        hist_probs.append(f"digest({alg}) of {how} is not the digest of its content")
                        break
                try:
                    ps.verify(badW)
                    hist_probs.append(f"verify accepted {how}")
                except E.PatchSetVerificationError:
                    pass
        except Exception as e:
            hist_probs.append(f"{type(e).__name__}: {str(e)[:150]}")
        if hist_probs:
            shard.violate("C17/verify-after-history", "; ".join(hist_probs[:3]), case, "verify_corrupt")
        else:
            shard.ok("verify_corrupt")
            shard.covered("object_histories", "Workspace object digested, then copies and the object itself edited in place")
    # --- one recorded digest wrong (only informative with two algorithms)
    algs = list(doc["metadata"]["digests"])
    for a in algs:
        doc2 = copy.deepcopy(doc)
        d = doc2["metadata"]["digests"][a]
        doc2["metadata"]["digests"][a] = ("0" if d[0] != "0" else "1") + d[1:]
        ps2 = pyhf.PatchSet(doc2)
        try:
            ps2.verify(ws)
        except E.PatchSetVerificationError:
            shard.ok("verify_bad_digest")
        except Exception as e:
            shard.violate("C17/verify-wrong-exception", f"{type(e).__name__} with wrong {a}", case, "verify_bad_digest")
        else:
            shard.violate("C17/verify-ignores-digest", f"verify passed although the recorded {a} digest is wrong (algorithms {algs})", case, "verify_bad_digest")

    # --- apply
    for i, nme in enumerate(names):
        ws_in = copy.deepcopy(ws)
        ops = doc["patches"][i]["patch"]
        try:
            expected = ref_apply(ws, ops)
            exp_err = None
        except RefPatchError as e:
            expected, exp_err = None, e
        key = rng.choice([nme, list(values[i]), values[i]])
        try:
            out = ps.apply(ws_in, key)
            err = None
        except Exception as e:
            out, err = None, e
        if ws_in != ws:
            shard.violate("C17/apply-mutates-input", f"apply({key!r}) modified the workspace passed in", case, "apply")
            continue
        if exp_err is not None:
            if err is None:
                shard.violate("C17/apply-ignores-failed-op", f"reference patch fails ({exp_err}) but apply returned", case, "apply")
            else:
                shard.ok("apply")
            continue
        if err is not None:
            shard.violate("C17/apply-raised", f"apply({key!r}) raised {type(err).__name__}: {str(err)[:200]}", case, "apply")
            continue
        if not isinstance(out, pyhf.Workspace) or dict(out) != expected:
            shard.violate("C17/apply-wrong-result", f"apply({key!r}) differs from the independent RFC-6902 result", case, "apply")
        else:
            shard.ok("apply")
            # aliasing history: the caller edits the returned workspace in place (every leaf), then applies again -
            # with the background given as a plain dict and as a pyhf.Workspace.  The second result, the stored patch,
            # the caller's document and the background must all be unaffected.
            for as_ws in (False, True):
                bg = pyhf.Workspace(copy.deepcopy(ws)) if as_ws else copy.deepcopy(ws)
                first = ps.apply(bg, key)
                scramble(first)
                second = ps.apply(bg, key)
                probs = []
                if dict(second) != expected:
                    probs.append("a second apply returns something else after the first result was edited in place")
                if list(ps[nme]) != doc_before["patches"][i]["patch"] or doc != doc_before:
                    probs.append("editing a returned workspace rewrote the stored patch / the caller's document")
                if dict(bg) != ws:
                    probs.append("the background workspace was modified")
                if probs:
                    shard.violate("C17/apply-result-aliases-patch", "; ".join(probs) + f" (background passed as {'pyhf.Workspace' if as_ws else 'dict'})", case, "apply_aliasing")
                    break
                shard.ok("apply_aliasing")
        # apply on a corrupted workspace must refuse
        bad = corrupt(ws, lv[rng.randrange(len(lv))][0]) if lv else None
        if bad is not None and bad != ws:
            try:
                ps.apply(bad, key)
            except E.PatchSetVerificationError:
                shard.ok("apply_unverified")
            except Exception as e:
                shard.violate("C17/apply-unverified-wrong-exception", type(e).__name__, case, "apply_unverified")
            else:
                shard.violate("C17/apply-skips-verification", "apply accepted an unverified workspace", case, "apply_unverified")

    reserved_used = sorted(set(names) & set(RESERVED))
    if len(names) >= 2 and reserved_used and len(algs) == 2:
        shard.nontrivial(names, values, case["kinds"], len(lv))
    shard.covered("op_kinds", ",".join(sorted({k for ks in case["kinds"] for k in ks})))
    for k in {k for ks in case["kinds"] for k in ks}:
        shard.covered("ops", k)
    shard.covered("n_patches", len(names))
    shard.covered("digest_algorithms", "+".join(algs))
    for r in reserved_used:
        shard.covered("reserved_names_used", r)
    shard.maximum("leaves_per_workspace", len(lv))


def make_case(seed):
    rng = random.Random(seed)
    ws, _ = gen.gen_workspace(rng, max_channels=2, max_samples=3, max_bins=3)
    r = rng.random()
    dup = None
    if r < 0.08:
        dup = "name"
    elif r < 0.16:
        dup = "values"
    elif r < 0.20:
        dup = "values_numeric_equal"
    doc, kinds = gen_patchset(rng, ws, dup)
    return {"seed": seed, "ws": ws, "doc": doc, "dup": dup, "kinds": kinds}


def plan(tier, seed):
    n = 160 if tier == "quick" else 24000
    nshards = 8 if tier == "quick" else 16
    per = n // nshards
    return [{"start": seed * 1000003 + i * per, "count": per} for i in range(nshards)]


def run_shard(shard):
    import logging
    logging.disable(logging.CRITICAL)
    p = shard.params
    for k in range(p["count"]):
        case = make_case(p["start"] + k)
        before = shard.nviolations
        check_case(case, shard)
        if k < 2 and shard.index == 0:
            shard.sample({"names": [q["metadata"]["name"] for q in case["doc"]["patches"]],
                          "values": [q["metadata"]["values"] for q in case["doc"]["patches"]],
                          "digests": list(case["doc"]["metadata"]["digests"]),
                          "first_patch": case["doc"]["patches"][0]["patch"], "dup": case["dup"],
                          "workspace_channels": [c["name"] for c in case["ws"]["channels"]]})


def extra_coverage(tier):
    return {"exhaustive_scope": "every scalar leaf and every list tail of each generated workspace is corrupted in turn; the space of documents is sampled"}


def replay(rec, shard):
    import logging
    logging.disable(logging.CRITICAL)
    check_case(rec["case"], shard)
