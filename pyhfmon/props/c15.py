"""C15 — inference is invariant under likelihood-preserving rewrites and configurations.

Metamorphic pair monitor: the same inference (maximised likelihood, observed and expected CLs,
upper limits) is run on a model and on a rewritten model whose likelihood function is the same
(or related by a known constant / a known rescaling); the monitor judges the relation between the
two observed executions.  Also: agreement across backends (64-bit) and between optimisers run to
tight tolerance.
"""
import copy
import math
import random

from .. import gen
from .c03 import to_np

LEVEL = "exploration"
RULE = (
    "Well-posed, sensitive generated models (nuisances of every constrained modifier type) x datasets x rewrites {permute listing "
    "orders, rename channels/samples/modifiers/POI, add a zero-yield sample, add null systematics (normsys 1/1, histosys = "
    "nominal), split a channel's bins into two channels, split one sample into two with identical modifiers (the inverse of "
    "merging), scale the signal by k} and compositions of two of them; observables: maximised 2NLL, CLs observed + 5-point band, "
    "upper limits; plus the same model on the other backends and with MINUIT at tight tolerance. A case = (model, data, rewrite "
    "or configuration); non-trivial when the model has >=5 nuisance components of >=3 modifier types and 0.01 < observed CLs < 0.99."
)
ASSUMPTIONS = [
    "pure permutations of the listing order: 1e-9 relative (clean code is bit-identical); every other rewrite, backends: 1e-4 relative on CLs and limits, 1e-5*(1+|2NLL|) on the maximised likelihood (known constant ln(2 pi) per added null systematic accounted for); SciPy vs MINUIT(tolerance 1e-3): 5e-3",
    "a defect common to both sides of every relation is invisible here (C01/C02/C05-C08 cover that)",
    "fits reporting failure make the pair inconclusive (skipped and counted)",
]
REQUIRED = ("rewrite_relation", "configuration_agreement")

LN2PI = math.log(2 * math.pi)


# ------------------------------------------------------------------ rewrites: (spec, obs, poi) -> (spec', obs', poi', info)
def rw_permute(rng, spec, obs, poi):
    s = copy.deepcopy(spec)
    rng.shuffle(s["channels"])
    for c in s["channels"]:
        rng.shuffle(c["samples"])
        for smp in c["samples"]:
            rng.shuffle(smp["modifiers"])
    if s.get("parameters"):
        rng.shuffle(s["parameters"])
    return s, dict(obs), poi, {"kind": "permute", "exact": True}


def rw_rename(rng, spec, obs, poi):
    s = copy.deepcopy(spec)
    cm = {c["name"]: "zz_" + c["name"] if rng.random() < 0.5 else "A" + c["name"] for c in s["channels"]}
    sm = {}
    mm = {}
    for c in s["channels"]:
        for smp in c["samples"]:
            sm.setdefault(smp["name"], rng.choice(["p_", "Z", "a"]) + smp["name"])
            for m in smp["modifiers"]:
                if m["name"] != "lumi":
                    mm.setdefault(m["name"], rng.choice(["n_", "Zz", "q"]) + m["name"])
    # half of the renames reverse the alphabetical order of the modifier names (and, independently, of the sample and
    # channel names): whatever pyhf orders by name then runs against whatever it orders by position in the layout, in the
    # original or in its twin, as soon as the model has two sets of one family
    for mapping in (mm, sm, cm):
        if len(mapping) >= 2 and rng.random() < 0.5:
            keys = sorted(mapping)
            for i, k in enumerate(keys):
                mapping[k] = f"r{len(keys) - i:02d}_{k}"
    for c in s["channels"]:
        c["name"] = cm[c["name"]]
        for smp in c["samples"]:
            smp["name"] = sm[smp["name"]]
            for m in smp["modifiers"]:
                m["name"] = mm.get(m["name"], m["name"])
    for p in s.get("parameters", []):
        p["name"] = mm.get(p["name"], p["name"])
    return s, {cm[k]: v for k, v in obs.items()}, mm[poi], {"kind": "rename"}


def rw_zero_sample(rng, spec, obs, poi):
    s = copy.deepcopy(spec)
    c = rng.choice(s["channels"])
    nb = len(c["samples"][0]["data"])
    mods = []
    if rng.random() < 0.5:
        # a zero-yield sample may also carry multiplicative modifiers: still zero
        any_norm = [m for smp in c["samples"] for m in smp["modifiers"] if m["type"] == "normsys"]
        if any_norm:
            mods.append(copy.deepcopy(any_norm[0]))
    c["samples"].insert(rng.randrange(len(c["samples"]) + 1), {"name": "ghost_sample", "data": [0.0] * nb, "modifiers": mods})
    return s, dict(obs), poi, {"kind": "zero-sample"}


def rw_null_sys(rng, spec, obs, poi):
    s = copy.deepcopy(spec)
    added = set()
    for c in s["channels"]:
        for smp in c["samples"]:
            if rng.random() < 0.6:
                smp["modifiers"].append({"name": "null_norm", "type": "normsys", "data": {"hi": 1.0, "lo": 1.0}})
                added.add("null_norm")
            if rng.random() < 0.4:
                smp["modifiers"].append({"name": "null_shape", "type": "histosys", "data": {"hi_data": list(smp["data"]), "lo_data": list(smp["data"])}})
                added.add("null_shape")
    if not added:
        smp = s["channels"][0]["samples"][0]
        smp["modifiers"].append({"name": "null_norm", "type": "normsys", "data": {"hi": 1.0, "lo": 1.0}})
        added.add("null_norm")
    return s, dict(obs), poi, {"kind": "null-systematic", "nll_constant": LN2PI * len(added)}


def rw_split_channel(rng, spec, obs, poi):
    s = copy.deepcopy(spec)
    cands = [c for c in s["channels"] if len(c["samples"][0]["data"]) >= 2]
    if not cands:
        return None
    c = rng.choice(cands)
    nb = len(c["samples"][0]["data"])
    k = rng.randint(1, nb - 1)
    pieces = []
    for tag, sl in (("_pa", slice(0, k)), ("_pb", slice(k, nb))):
        d = {"name": c["name"] + tag, "samples": []}
        for smp in c["samples"]:
            mods = []
            for m in smp["modifiers"]:
                m2 = copy.deepcopy(m)
                if m["type"] == "histosys":
                    m2["data"] = {"hi_data": m["data"]["hi_data"][sl], "lo_data": m["data"]["lo_data"][sl]}
                elif m["type"] in ("shapesys", "staterror"):
                    m2["data"] = m["data"][sl]
                    m2["name"] = m["name"] + tag
                elif m["type"] == "shapefactor":
                    m2["name"] = m["name"] + tag
                mods.append(m2)
            d["samples"].append({"name": smp["name"], "data": smp["data"][sl], "modifiers": mods})
        pieces.append(d)
    i = s["channels"].index(c)
    s["channels"][i:i + 1] = pieces
    o = dict(obs)
    full = o.pop(c["name"])
    o[c["name"] + "_pa"], o[c["name"] + "_pb"] = full[:k], full[k:]
    return s, o, poi, {"kind": "split-channel"}


def rw_split_sample(rng, spec, obs, poi):
    """The inverse of merging two samples that carry identical modifiers."""
    s = copy.deepcopy(spec)
    cands = [(c, smp) for c in s["channels"] for smp in c["samples"] if all(m["type"] in ("normfactor", "normsys", "lumi", "histosys", "staterror") for m in smp["modifiers"])]
    # a staterror name used in several channels must be declared by the same samples in each (pyhf refuses anything
    # else), so a sample carrying one is only split when that name lives in this channel alone
    def stat_local(c, smp):
        names = {m["name"] for m in smp["modifiers"] if m["type"] == "staterror"}
        return not any(m["type"] == "staterror" and m["name"] in names for c2 in s["channels"] if c2 is not c for s2 in c2["samples"] for m in s2["modifiers"])
    cands = [(c, smp) for c, smp in cands if stat_local(c, smp)]
    if not cands:
        return None
    with_stat = [(c, smp) for c, smp in cands if any(m["type"] == "staterror" for m in smp["modifiers"])]
    c, smp = rng.choice(with_stat if with_stat and rng.random() < 0.7 else cands)
    has_stat = any(m["type"] == "staterror" for m in smp["modifiers"])
    # without MC-stat uncertainties one part may be negative (interference-like template): the sum is what counts
    f = rng.choice([0.25, 0.5, 0.375] if has_stat else [0.25, 0.5, 0.375, -0.3, 1.4])
    nb = len(smp["data"])
    # per-bin yield fractions of the first part; with a staterror one bin of the first part may be left with zero
    # yield but a non-zero MC uncertainty (negative-weight samples do that): the quadrature sum must still count it
    fr = [f] * nb
    if has_stat and rng.random() < 0.6:
        fr[rng.randrange(nb)] = 0.0
    # the MC-stat uncertainty need not be shared out like the yield: only the quadrature sum counts, so all of it may
    # sit on one part while the other carries the modifier with zero uncertainty in every bin (it is still scaled by
    # gamma and still belongs to the nominal total the relative width refers to)
    g = f
    if has_stat and rng.random() < 0.4:
        g = rng.choice([0.0, 1.0])
    parts = []
    for tag, first in (("_m1", True), ("_m2", False)):
        frac = [x if first else 1 - x for x in fr]
        mods = []
        for m in smp["modifiers"]:
            m2 = copy.deepcopy(m)
            if m["type"] == "histosys":
                m2["data"] = {"hi_data": [v * q for v, q in zip(m["data"]["hi_data"], frac)], "lo_data": [v * q for v, q in zip(m["data"]["lo_data"], frac)]}
            if m["type"] == "staterror":
                # absolute MC uncertainties add in quadrature: u1 = u sqrt(f), u2 = u sqrt(1-f)
                m2["data"] = [u * math.sqrt(g if first else 1 - g) for u in m["data"]]
            mods.append(m2)
        parts.append({"name": smp["name"] + tag, "data": [v * q for v, q in zip(smp["data"], frac)], "modifiers": mods})
    i = c["samples"].index(smp)
    c["samples"][i:i + 1] = parts
    return s, dict(obs), poi, {"kind": "split-sample(merge inverse)" + (", one part negative" if not 0 <= f <= 1 else "") + (", one part with zero yield under staterror" if 0.0 in fr else (", staterror in quadrature" if has_stat else "")) + (", all MC-stat uncertainty on one part" if has_stat and g != f else "")}


def rw_scale_signal(rng, spec, obs, poi):
    s = copy.deepcopy(spec)
    k = rng.choice(SCALE_K)
    for c in s["channels"]:
        for smp in c["samples"]:
            if any(m["name"] == poi for m in smp["modifiers"]):
                if any(m["type"] in ("staterror", "shapesys") for m in smp["modifiers"]):
                    return None
                smp["data"] = [v * k for v in smp["data"]]
                for m in smp["modifiers"]:
                    if m["type"] == "histosys":
                        m["data"] = {"hi_data": [v * k for v in m["data"]["hi_data"]], "lo_data": [v * k for v in m["data"]["lo_data"]]}
    return s, dict(obs), poi, {"kind": "scale-signal", "k": k}


REWRITES = [rw_permute, rw_rename, rw_zero_sample, rw_null_sys, rw_split_channel, rw_split_sample, rw_scale_signal]


# ------------------------------------------------------------------ observation of one side
# signal scale factors of the case at hand: limit cases also use large factors (limits of order 1/k, where only a
# tolerance relative to the limit keeps "limit x k" invariant)
SCALE_K = [0.5, 2.0, 1.6]

# model options of the case at hand (both spellings of a model are always built with the same options)
MODEL_KW = {}


def observe(spec, obs, poi, mu, want_limit=False, fit_kw=None):
    import pyhf
    from pyhf import exceptions as E

    model = pyhf.Model(copy.deepcopy(spec), poi_name=poi, **MODEL_KW)
    data = [x for c in model.config.channels for x in obs[c]] + list(model.config.auxdata)
    out = {}
    kw = fit_kw or {}
    _, nll = pyhf.infer.mle.fit(data, model, return_fitted_val=True, **kw)
    out["nll"] = float(to_np(nll).reshape(-1)[0])
    r = pyhf.infer.hypotest(mu, data, model, return_expected_set=True, **kw)
    out["cls"] = float(to_np(r[0]))
    out["band"] = [float(to_np(x)) for x in r[1]]
    if want_limit:
        o, e = pyhf.infer.intervals.upper_limits.upper_limit(data, model, **kw)
        out["limit"] = float(to_np(o))
        out["explimits"] = [float(to_np(x)) for x in e]
    out["npars"] = model.config.npars
    return out


def robust_objectives(spec, obs, poi, mu, seed, fit_kw=None, nstarts=5):
    """Best objective over several starting points for the three fits an asymptotic test makes
    (free, POI fixed at mu, POI fixed at 0).  Used only to DIAGNOSE a failed relation: if the multi-start optima of
    both sides agree, the likelihood functions agree and the single-start fits sat in different local minima."""
    import pyhf
    from pyhf import exceptions as E

    model = pyhf.Model(copy.deepcopy(spec), poi_name=poi, **MODEL_KW)
    cfg = model.config
    data = [x for c in cfg.channels for x in obs[c]] + list(cfg.auxdata)
    rng = random.Random(seed)
    base = list(cfg.suggested_init())
    bounds = cfg.suggested_bounds()
    fixed = cfg.suggested_fixed()
    starts = [base]
    for _ in range(nstarts):
        st = []
        for v, (lo, hi), fx in zip(base, bounds, fixed):
            if fx:
                st.append(v)
            else:
                w = 0.8 if lo < 0 else 0.25
                st.append(min(max(v + rng.uniform(-w, w), lo + 1e-6), hi - 1e-6))
        starts.append(st)
    best = [math.inf, math.inf, math.inf]
    kw = fit_kw or {}
    for st in starts:
        for j, pv in enumerate((None, mu, 0.0)):
            try:
                if pv is None:
                    _, f = pyhf.infer.mle.fit(data, model, list(st), return_fitted_val=True, **kw)
                else:
                    _, f = pyhf.infer.mle.fixed_poi_fit(pv, data, model, list(st), return_fitted_val=True, **kw)
                best[j] = min(best[j], float(to_np(f).reshape(-1)[0]))
            except E.FailedMinimization:
                pass
            except Exception:
                pass
    return best


def same_minima(a, b, const, tol=2e-5):
    return all(math.isfinite(x) and math.isfinite(y) and abs((y - const) - x) <= tol * (1 + abs(x)) for x, y in zip(a, b))


def relclose(a, b, rel, tail=False):
    # for a tail probability p = Phi(-x): dp/p = dq/2 with q = x^2 ~ -2 ln p, and the fit noise on q is relative,
    # so the relative noise of p grows like -ln p (1.7e-4 observed between backends at p = 2.4e-12)
    if tail and a > 0 and b > 0:
        rel = rel * max(1.0, -math.log(min(a, b)))
    return abs(a - b) <= rel * (abs(a) + abs(b)) / 2 + 1e-12


def check_model(case, shard):
    import pyhf
    from pyhf import exceptions as E

    rng = random.Random(case["seed"])
    spec, obs, poi, mu = case["spec"], case["obs"], "mu", case["mu"]
    backend = case["backend"]
    want_limit = case.get("limit", False)
    SCALE_K[:] = [0.5, 2.0, 40.0, 80.0] if want_limit else [0.5, 2.0, 1.6]
    MODEL_KW.clear()
    MODEL_KW.update(case.get("model_kw") or {})
    if MODEL_KW:
        shard.covered("model_options", str(sorted(MODEL_KW.items())))
    try:
        base = observe(spec, obs, poi, mu, want_limit)
    except E.FailedMinimization:
        shard.skip("fit reported failure (original model)")
        return
    except Exception as e:
        shard.skip(f"limit scan did not bracket ({type(e).__name__})") if want_limit else shard.skip(f"original model raised {type(e).__name__}")
        return
    if not (base["band"][2] < 0.9):
        shard.skip("not sensitive (median expected CLs >= 0.9)")
        return
    idx = gen.spec_modifier_index(spec)
    ntypes = len({t for bt in idx.values() for t in bt if t != "normfactor"})
    interesting = base["npars"] - 1 >= 5 and ntypes >= 3 and 0.01 < base["cls"] < 0.99
    for chain in case["chains"]:
        s2, o2, p2 = copy.deepcopy(spec), dict(obs), poi
        kinds, const, k, exact = [], 0.0, 1.0, True
        ok = True
        for ri in chain:
            r = REWRITES[ri](rng, s2, o2, p2)
            if r is None:
                ok = False
                break
            s2, o2, p2, info = r
            kinds.append(info["kind"])
            const += info.get("nll_constant", 0.0)
            k *= info.get("k", 1.0)
            exact = exact and info.get("exact", False)
        if not ok:
            shard.skip("rewrite not applicable to this model")
            continue
        c = dict(case, chain=kinds, rewritten=s2, rewritten_obs=o2)
        try:
            new = observe(s2, o2, p2, mu / k, want_limit)
        except E.FailedMinimization:
            shard.skip("fit reported failure (rewritten model)")
            continue
        except ValueError as e:
            if want_limit and ("NaN" in str(e) or "sign" in str(e) or "bracket" in str(e)):
                shard.skip("limit scan of the rewritten model did not bracket / hit NaN (domain, as for the original)")
                continue
            shard.violate("C15/rewritten-model-raised", f"rewrite {kinds}: {type(e).__name__}: {str(e)[:200]}", c, "rewrite_relation")
            continue
        except Exception as e:
            shard.violate("C15/rewritten-model-raised", f"rewrite {kinds}: {type(e).__name__}: {str(e)[:200]}", c, "rewrite_relation")
            continue
        rel = 1e-9 if exact else 1e-4
        probs = []
        if not abs((new["nll"] - const) - base["nll"]) <= (1e-9 if exact else 1e-5) * (1 + abs(base["nll"])):
            probs.append(f"maximised 2NLL {base['nll']!r} -> {new['nll']!r} (expected constant {const:.6f})")
        if not relclose(new["cls"], base["cls"], rel, tail=not exact):
            probs.append(f"CLs_obs {base['cls']!r} -> {new['cls']!r}")
        for i in range(5):
            if not relclose(new["band"][i], base["band"][i], rel, tail=not exact):
                probs.append(f"CLs_exp[{i}] {base['band'][i]!r} -> {new['band'][i]!r}")
                break
        if want_limit:
            if not relclose(new["limit"] * k, base["limit"], max(rel, 3e-4)):
                probs.append(f"observed limit {base['limit']!r} -> {new['limit']!r} x k={k}")
            for i in range(5):
                if not relclose(new["explimits"][i] * k, base["explimits"][i], max(rel, 3e-4)):
                    probs.append(f"expected limit[{i}] {base['explimits'][i]!r} -> {new['explimits'][i]!r} x k={k}")
                    break
        if probs:
            mech_name = "C15/rewrite:" + "+".join(kinds)
            try:
                ra = robust_objectives(spec, obs, poi, mu, case["seed"])
                rb = robust_objectives(s2, o2, p2, mu / k, case["seed"] + 1)
                single_differs = abs((new["nll"] - const) - base["nll"]) > 1e-5 * (1 + abs(base["nll"]))
                if same_minima(ra, rb, const):
                    # the two likelihood functions have the same optima: the default-start fits of the two spellings
                    # of the model converged to different local minima of a multi-modal likelihood
                    mech_name = "C15/optimiser-path-dependence-in-multimodal-likelihood"
                    probs.append(f"multi-start optima agree on both sides ({ra} vs {rb}, constant {const:.4f})")
            except Exception:
                pass
            shard.violate(mech_name, "; ".join(probs[:4]) + f"; backend={backend} mu={mu}", c, "rewrite_relation")
        else:
            shard.ok("rewrite_relation")
            shard.maximum("cls_rel_change_" + ("exact" if exact else "other"), abs(new["cls"] - base["cls"]) / (abs(base["cls"]) + 1e-300))
            for kd in kinds:
                shard.covered("rewrites", kd)
            if interesting:
                shard.nontrivial(case["seed"], kinds, backend)
    # configurations: other backends and tight MINUIT
    if case.get("configs"):
        home = pyhf.tensorlib.name
        for be, opt in case["configs"]:
            try:
                if opt == "minuit":
                    pyhf.set_backend(be, pyhf.optimize.minuit_optimizer(tolerance=1e-3), precision="64b")
                else:
                    pyhf.set_backend(be, "scipy", precision="64b")
                other = observe(spec, obs, poi, mu, False)
            except E.FailedMinimization:
                shard.skip(f"fit reported failure ({be}/{opt})")
                continue
            finally:
                pyhf.set_backend(home, "scipy", precision="64b")
            rel = 5e-3 if opt == "minuit" else 1e-4
            probs = []
            if not abs(other["nll"] - base["nll"]) <= (2e-3 if opt == "minuit" else 1e-5) * (1 + abs(base["nll"])):
                probs.append(f"maximised 2NLL {base['nll']!r} vs {other['nll']!r}")
            if not relclose(other["cls"], base["cls"], rel, tail=True):
                probs.append(f"CLs_obs {base['cls']!r} vs {other['cls']!r}")
            if any(not relclose(other["band"][i], base["band"][i], rel, tail=True) for i in range(5)):
                probs.append(f"CLs_exp {base['band']} vs {other['band']}")
            if probs:
                mech_name = f"C15/configuration:{be}-{opt}"
                try:
                    ra = robust_objectives(spec, obs, poi, mu, case["seed"])
                    if opt == "minuit":
                        pyhf.set_backend(be, pyhf.optimize.minuit_optimizer(tolerance=1e-3), precision="64b")
                    else:
                        pyhf.set_backend(be, "scipy", precision="64b")
                    rb = robust_objectives(spec, obs, poi, mu, case["seed"] + 1)
                    pyhf.set_backend(home, "scipy", precision="64b")
                    if same_minima(ra, rb, 0.0, tol=2e-4 if opt == "minuit" else 2e-5):
                        mech_name = "C15/optimiser-path-dependence-in-multimodal-likelihood"
                        probs.append(f"multi-start optima agree in both configurations ({ra} vs {rb})")
                except Exception:
                    pyhf.set_backend(home, "scipy", precision="64b")
                shard.violate(mech_name, "; ".join(probs) + f" ({home}/scipy vs {be}/{opt})", dict(case, config=[be, opt]), "configuration_agreement")
            else:
                shard.ok("configuration_agreement")
                shard.covered("configurations", f"{home}/scipy vs {be}/{opt}")
                shard.maximum(f"cls_rel_diff_{opt}", abs(other["cls"] - base["cls"]) / (abs(base["cls"]) + 1e-300))
                if interesting:
                    shard.nontrivial(case["seed"], "config", be, opt)


def make_case(rng, backend, tier):
    import pyhf

    # a third of the models carry a second, free normfactor on a background (parameter order != name order);
    # they are less well conditioned (clean noise up to 5e-4 on CLs under structural rewrites), so only the
    # order/name rewrites, whose relations are exact or nearly so, are applied to them
    with_free_norm = rng.random() < 0.34

    spec, _ = gen.gen_spec(rng, profile="wellposed", max_channels=2, max_samples=3, max_bins=3, max_nuis=9,
                           types=["normsys", "histosys", "shapesys", "staterror", "lumi"] + (["normfactor"] if with_free_norm else []))
    spec["parameters"] = [p for p in spec["parameters"] if p["name"] == "lumi"]
    for p in spec["parameters"]:
        p["fixed"] = False
    # boost the signal a little so that the test is sensitive
    for c in spec["channels"]:
        for s in c["samples"]:
            if s["name"] == "signal":
                f = 1.6
                s["data"] = [gen._round(v * f + 2.0, 3) for v in s["data"]]
                for m in s["modifiers"]:
                    if m["type"] == "histosys":
                        m["data"] = {"hi_data": [gen._round(v * 1.06, 4) for v in s["data"]], "lo_data": [gen._round(v * 0.95, 4) for v in s["data"]]}
                s["modifiers"] = [m for m in s["modifiers"] if m["type"] not in ("staterror", "shapesys")]
    # a third of the models get two or three shapesys on different background slots, with different relative
    # uncertainties and names that do not follow the layout order: several sets of one constraint family whose
    # name order and position order disagree (the generator alone yields two Poisson-constrained sets in ~1 model of 25)
    if rng.random() < 0.33:
        slots = [s for c in spec["channels"] for s in c["samples"] if s["name"] != "signal" and not any(m["type"] == "shapesys" for m in s["modifiers"])]
        if len(slots) >= 2:
            slots = rng.sample(slots, min(len(slots), rng.choice([2, 2, 3])))
            names = rng.sample(["sh_a", "sh_k", "sh_t", "Sh_B", "sh_z"], len(slots))
            for smp, nm in zip(slots, names):
                rel = rng.choice([0.04, 0.08, 0.15, 0.25])
                smp["modifiers"].append({"name": nm, "type": "shapesys", "data": [gen._round(max(v, 0.5) * rel * rng.uniform(0.7, 1.4), 4) for v in smp["data"]]})
    # a shapesys bin without uncertainty: pyhf itself holds that gamma constant, so every conditional fit has two
    # constants (the POI and that gamma)
    if rng.random() < 0.35:
        ss_mods = [m for c in spec["channels"] for s in c["samples"] for m in s["modifiers"] if m["type"] == "shapesys" and len(m["data"]) >= 2]
        if ss_mods:
            m = rng.choice(ss_mods)
            m["data"][rng.randrange(len(m["data"]))] = 0.0
    model = pyhf.Model(copy.deepcopy(spec), poi_name="mu")
    pars = model.config.suggested_init()
    pars[model.config.poi_index] = rng.choice([0.0, 0.0, 0.5, 1.0])
    rates = [float(x) for x in to_np(model.expected_actualdata(pars))]
    obs = {}
    for c in model.config.channels:
        sl = model.config.channel_slices[c]
        obs[c] = [float(gen.poisson_draw(rng, x)) for x in rates[sl]]
    singles = [[i] for i in range(len(REWRITES))]
    pairs = [rng.sample(range(len(REWRITES)), 2) for _ in range(2 if tier == "quick" else 6)]
    if with_free_norm:
        singles, pairs = [[0], [1], [1]], [[0, 1], [1, 0]]
    case = {"spec": spec, "obs": obs, "mu": rng.choice([0.8, 1.0, 1.5, 2.0]), "chains": singles + pairs, "backend": backend, "seed": rng.randrange(1 << 30)}
    # clipping of the summed bin contents at zero is a model option under which every listed rewrite still preserves the
    # likelihood (per-sample clipping would not: merging samples changes what is clipped)
    if rng.random() < 0.3:
        case["model_kw"] = {"clip_bin_data": 0.0}
    return case


def plan(tier, seed):
    if tier == "quick":
        lay = [("numpy", 1, True)] * 4 + [("numpy", 2, False)] * 9 + [("jax", 1, False), ("pytorch", 1, False), ("tensorflow", 1, False)]
    else:
        lay = [("numpy", 14, True)] * 4 + [("numpy", 30, False)] * 8 + [("jax", 6, False), ("pytorch", 14, False), ("pytorch", 14, False), ("tensorflow", 5, False)]
    return [{"backend": b, "n": n, "configs": cfg, "seed": seed * 533000389 + i, "limit": i in (4, 5)} for i, (b, n, cfg) in enumerate(lay)]


def run_shard(shard):
    import logging
    logging.disable(logging.CRITICAL)
    import warnings
    warnings.simplefilter("ignore")
    import pyhf

    p = shard.params
    pyhf.set_backend(p["backend"], "scipy", precision="64b")
    shard.covered("backends", p["backend"])
    rng = random.Random(p["seed"])
    for k in range(p["n"]):
        case = make_case(rng, p["backend"], shard.tier)
        free_norm = any(m["type"] == "normfactor" and m["name"] != "mu" for c in case["spec"]["channels"] for s_ in c["samples"] for m in s_["modifiers"])
        if p["configs"]:
            # the optimiser comparison is the one place where two optimisers see the same conditional fits: give most of
            # these models a gamma that pyhf itself holds constant (shapesys bin without uncertainty), i.e. two constants
            ss_mods = [m for c in case["spec"]["channels"] for s_ in c["samples"] for m in s_["modifiers"] if m["type"] == "shapesys" and len(m["data"]) >= 2 and 0.0 not in m["data"]]
            if ss_mods and rng.random() < 0.7:
                m = rng.choice(ss_mods)
                m["data"][rng.randrange(len(m["data"]))] = 0.0
            # (models with a free background normfactor are excluded from the optimiser comparison: MINUIT at
            # tolerance 1e-3 stopped 1-2 units of 2NLL above SciPy's fixed-POI optimum on such a model, an optimiser
            # weakness on ill-conditioned fits rather than a property of pyhf's likelihood; backends are still compared)
            case["configs"] = [("jax", "scipy"), ("pytorch", "scipy"), ("tensorflow", "scipy")] + ([] if free_norm else [("numpy", "minuit")])
            case["chains"] = case["chains"][:3]
        if p.get("limit") and k == 0:
            case["limit"] = True
            case["chains"] = [[0], [1]] if free_norm else [[0], [1], [6], [4]]
        check_model(case, shard)
        if k == 0 and shard.index == 0:
            shard.sample({k2: v for k2, v in case.items()})


def replay(rec, shard):
    import logging
    logging.disable(logging.CRITICAL)
    import pyhf

    c = rec["case"]
    pyhf.set_backend(c.get("backend", "numpy"), "scipy", precision="64b")
    for k in ("chain", "rewritten", "rewritten_obs", "config"):
        c.pop(k, None)
    check_model(c, shard)
