"""C08 — hypothesis tests give the analytically known answer and a stable result layout.

Monitor on pyhf.infer.hypotest / generate_asimov_data / calculator.fitted_pars:
closed-form counting models (1-D concave problem solved in mpmath), result-layout grammar over
all 16 flag sets, Asimov data = expectation at the conditional fit, refusal rules.  Also feed (b)
of C07: (q, q_A) captured from the real test-statistic calls are pushed through the mpmath
formulae and compared with what hypotest reports (wiring).
"""
import copy
import math
import random

from .. import attach, gen
from .. import refstats as RS
from . import c06
from .c03 import to_np

LEVEL = "exploration"
RULE = (
    "Signal-strength-only counting models (1-3 channels x 1-3 bins) with observed counts from 0 to far above expectation x "
    "tested mu across the POI range x {q, qtilde, q0} x all 16 return-flag sets x {asymptotics, toybased with few toys}; plus "
    "generated models with nuisance parameters for the captured-(q, q_A) wiring check. A case = (model, n, mu, statistic, "
    "flags); non-trivial when 0 < CLs < 1 strictly; distinct by (model shape, n, mu, statistic, flags)."
)
ASSUMPTIONS = [
    "closed forms from pyhfmon/refstats.py (bisection on the concave score, 40 digits)",
    "CLs / p0 vs closed form: relative 2e-4*(1+x^2) + 1e-9 with x the largest Normal argument (fit tolerance enters through sqrt(q)); Asimov data 1e-5 relative; layout and refusals exact",
    "toy-based runs use 30-60 toys and are only judged for layout, range and refusal (C14 judges their statistics)",
]
REQUIRED = ("closed_form_cls", "layout", "asimov_data", "refusal", "captured_formula")

FLAGS = [dict(return_tail_probs=a, return_expected=b, return_expected_set=c, return_calculator=d)
         for a in (False, True) for b in (False, True) for c in (False, True) for d in (False, True)]


class Capture:
    """Wrap the three test statistics and generate_asimov_data to read q, q_A and the Asimov data."""

    def __init__(self):
        self.events = []

    def install(self):
        import pyhf.infer.test_statistics as T
        import pyhf.infer.calculators as C
        import pyhf.infer.utils  # noqa

        for name in ("qmu", "qmu_tilde", "q0"):
            attach.wrap_function(T, name, self._stat_hook(name))
        attach.wrap_function(C, "generate_asimov_data", self._asimov_hook)

    def _stat_hook(self, name):
        def hook(orig, args, kwargs):
            res = orig(*args, **kwargs)
            v = res[0] if isinstance(res, tuple) else res
            self.events.append(("stat", name, float(to_np(v)), args[0], [float(x) for x in to_np(args[1])] if len(args) > 1 else None))
            return res
        return hook

    def _asimov_hook(self, orig, args, kwargs):
        res = orig(*args, **kwargs)
        d = res[0] if isinstance(res, tuple) else res
        pars = res[1] if isinstance(res, tuple) else None
        self.events.append(("asimov", float(args[0]), [float(x) for x in to_np(d)], None if pars is None else [float(x) for x in to_np(pars)]))
        return res


def tol(ref, x):
    return 2e-4 * (1 + x * x) * abs(ref) + 1e-9


def expected_layout(res, flags, is_q0):
    """Parse a hypotest result according to the documented grammar; returns dict or raises ValueError."""
    n = 1 + sum(bool(flags[k]) for k in ("return_tail_probs", "return_expected", "return_expected_set", "return_calculator"))
    if n == 1:
        items = [res]
    else:
        if not isinstance(res, tuple) or len(res) != n:
            raise ValueError(f"expected a tuple of {n} items, got {type(res).__name__} of length {len(res) if hasattr(res, '__len__') else '?'}")
        items = list(res)
    out = {}
    import numpy as np

    def scalar(x, what):
        a = to_np(x)
        if a.shape not in ((), (1,)):
            raise ValueError(f"{what} is not a scalar (shape {a.shape})")
        return float(a.reshape(-1)[0])

    out["main"] = scalar(items.pop(0), "CLs")
    if flags["return_tail_probs"]:
        t = items.pop(0)
        want = 1 if is_q0 else 2
        if not isinstance(t, (list, tuple)) or len(t) != want:
            raise ValueError(f"tail probabilities should be a list of {want}, got {t!r}")
        out["tail"] = [scalar(x, "tail") for x in t]
    if flags["return_expected"]:
        out["median"] = scalar(items.pop(0), "median expected")
    if flags["return_expected_set"]:
        b = items.pop(0)
        if not isinstance(b, (list, tuple)) or len(b) != 5:
            raise ValueError(f"expected band should be a list of 5, got {b!r}")
        out["band"] = [scalar(x, "band") for x in b]
    if flags["return_calculator"]:
        c = items.pop(0)
        if not hasattr(c, "teststatistic"):
            raise ValueError(f"calculator slot holds {type(c).__name__}")
        out["calc"] = c
    return out


def check_counting(case, shard, cap):
    import pyhf

    spec = case["spec"]
    model = pyhf.Model(copy.deepcopy(spec), poi_name="mu")
    ss, bs = c06.counting_arrays(spec)
    data = list(case["data"])
    mu, ts = case["mu"], case["test_stat"]
    lo, hi = 0.0, 10.0
    bounds = [(lo, hi)]
    if ts == "q" or (ts == "q0" and case.get("q0_negative_bound")):
        # a POI allowed to go negative: q0 must then be zero (p0 = 0.5) for a deficit
        minratio = min(b / s for s, b in zip(ss, bs))
        lo = -round(min(0.5 * minratio, 3.0), 2)
        bounds = [(lo, hi)]
    kind = ts
    # closed forms
    q_obs, muhat = RS.counting_teststat(kind, mu, data, ss, bs, lo, hi)
    asimov_mu = 1.0 if ts == "q0" else 0.0
    asimov = [asimov_mu * s + b for s, b in zip(ss, bs)]
    q_A, _ = RS.counting_teststat(kind, mu, asimov, ss, bs, lo, hi)
    mu_call = 0.0 if ts == "q0" else mu
    cap.events.clear()
    res = pyhf.infer.hypotest(mu_call, data, model, par_bounds=bounds, test_stat=ts, return_tail_probs=True, return_expected_set=True, return_calculator=True)
    cls_obs = float(to_np(res[0]))
    tails = [float(to_np(x)) for x in res[1]]
    band = [float(to_np(x)) for x in res[2]]
    calc = res[3]
    ctx = f"stat={ts} mu={mu} n={data} s={ss} b={bs} poi_bounds={bounds[0]} backend={case['backend']}"
    if float(q_A) <= 1e-10:
        shard.skip("Asimov statistic is zero (no sensitivity): formulae not applicable")
        return
    rsb, rb, rs, args = RS.asymptotic_pvalues(q_obs, q_A, ts)
    x = max(abs(a) for a in args)
    rexp = RS.expected_pvalues(q_A, ts)
    main_ref = rsb if ts == "q0" else rs
    bad = []
    if not abs(cls_obs - float(main_ref)) <= tol(float(main_ref), x):
        bad.append(f"{'p0' if ts == 'q0' else 'CLs'}={cls_obs!r} analytic {float(main_ref)!r}")
    tail_ref = [rb] if ts == "q0" else [rsb, rb]
    for g, r in zip(tails, tail_ref):
        if not abs(g - float(r)) <= tol(float(r), x):
            bad.append(f"tail {g!r} analytic {float(r)!r}")
    for i, (esb, eb, es, t) in enumerate(rexp):
        r = float(esb if ts == "q0" else es)
        xa = abs(t) + math.sqrt(float(q_A))
        if not abs(band[i] - r) <= tol(r, xa):
            bad.append(f"expected[N={[2, 1, 0, -1, -2][i]}]={band[i]!r} analytic {r!r}")
    if bad:
        shard.violate(f"C08/closed-form:{ts}", "; ".join(bad[:4]) + f"; q_obs={float(q_obs)!r} q_A={float(q_A)!r}; " + ctx, case, "closed_form_cls")
    else:
        shard.ok("closed_form_cls", 1 + len(tails) + 5)
        shard.maximum("cls_rel_err", abs(cls_obs - float(main_ref)) / (abs(float(main_ref)) + 1e-300))
    # Asimov data used = model expectation at the conditional fit
    asim = [e for e in cap.events if e[0] == "asimov"]
    if not asim:
        shard.skip("generate_asimov_data not observed")
    else:
        _, amu, adata, apars = asim[0]
        okA = amu == asimov_mu and all(abs(a - b) <= 1e-5 * abs(b) + 1e-9 for a, b in zip(adata, asimov))
        if apars is not None:
            exp_at = [float(v) for v in to_np(model.expected_data(apars))]
            okA = okA and all(abs(a - b) <= 1e-12 * abs(b) + 1e-300 for a, b in zip(adata, exp_at)) and apars[model.config.poi_index] == asimov_mu
            fp = calc.fitted_pars
            if fp is None or [float(v) for v in to_np(fp.asimov_pars)] != apars:
                okA = False
        if not okA:
            shard.violate(f"C08/asimov-data:{ts}", f"Asimov hypothesis mu={amu!r} (expected {asimov_mu}) data {adata} vs closed form {asimov}; " + ctx, case, "asimov_data")
        else:
            shard.ok("asimov_data")
    if 0 < cls_obs < 1:
        shard.nontrivial([len(c["samples"][0]["data"]) for c in spec["channels"]], data, mu, ts, case["backend"])
    shard.covered("statistics", ts)
    shard.covered("muhat_side", "above" if float(muhat) > mu else ("bound" if float(muhat) <= lo + 1e-9 else "below"))
    return cls_obs, tails, band


def check_layout(case, shard, ref_values=None):
    import pyhf

    spec = case["spec"]
    model = pyhf.Model(copy.deepcopy(spec), poi_name="mu")
    data = list(case["data"])
    ts = case["test_stat"]
    mu_call = 0.0 if ts == "q0" else case["mu"]
    calctype = case.get("calctype", "asymptotics")
    kw = {"test_stat": ts}
    if calctype == "toybased":
        kw.update(ntoys=case.get("ntoys", 40), track_progress=False)
    base = None
    for flags in FLAGS:
        fl = {k: v for k, v in flags.items()}
        label = "".join("1" if fl[k] else "0" for k in ("return_tail_probs", "return_expected", "return_expected_set", "return_calculator"))
        try:
            if calctype == "toybased":
                import numpy as np
                np.random.seed(case["seed"] % (2 ** 31))
            res = pyhf.infer.hypotest(mu_call, data, model, calctype=calctype, **kw, **fl)
            parsed = expected_layout(res, fl, ts == "q0")
        except ValueError as e:
            shard.violate(f"C08/layout:{calctype}", f"flags(tail,exp,set,calc)={label} stat={ts}: {e}", dict(case, flags=fl), "layout")
            continue
        except Exception as e:
            shard.violate(f"C08/hypotest-raised:{calctype}", f"flags={label} stat={ts}: {type(e).__name__}: {str(e)[:200]}", dict(case, flags=fl), "layout")
            continue
        probs = []
        if calctype == "toybased" and parsed["main"] != parsed["main"]:
            shard.skip("toy-based CLs is 0/0 with this few toys (not judged)")
        elif not (0 <= parsed["main"] <= 1 + 1e-12):
            probs.append(f"main value {parsed['main']!r} outside [0,1]")
        if "band" in parsed and "median" in parsed and parsed["band"][2] != parsed["median"] and calctype == "asymptotics":
            probs.append(f"median {parsed['median']!r} != band[2] {parsed['band'][2]!r}")
        if calctype == "asymptotics":
            if base is None:
                base = parsed
            else:
                for k in ("main", "tail", "median", "band"):
                    if k in parsed and k in base and parsed[k] != base[k]:
                        probs.append(f"{k} differs between flag sets: {parsed[k]!r} vs {base[k]!r}")
                for k in ("tail", "median", "band"):
                    if k in parsed and k not in base:
                        base[k] = parsed[k]
            if "band" in parsed and any(parsed["band"][i] > parsed["band"][i + 1] * (1 + 1e-12) for i in range(4)):
                probs.append(f"band not ordered: {parsed['band']}")
        if probs:
            shard.violate(f"C08/layout-values:{calctype}", f"flags={label} stat={ts}: " + "; ".join(probs), dict(case, flags=fl), "layout")
        else:
            shard.ok("layout")
            shard.covered(f"flagsets_{ts}_{calctype}", label)


def check_refusals(case, shard):
    import pyhf
    from pyhf import exceptions as E

    spec = case["spec"]
    data = list(case["data"])
    for calctype in ("asymptotics", "toybased"):
        kw = dict(ntoys=5, track_progress=False) if calctype == "toybased" else {}
        m0 = pyhf.Model(copy.deepcopy(spec), poi_name=None)
        try:
            pyhf.infer.hypotest(1.0, data, m0, calctype=calctype, **kw)
            shard.violate("C08/no-poi-accepted", f"hypotest ran on a model without POI ({calctype})", case, "refusal")
        except E.UnspecifiedPOI:
            shard.ok("refusal")
        except Exception as e:
            shard.violate("C08/no-poi-wrong-exception", f"{type(e).__name__}: {str(e)[:150]} ({calctype})", case, "refusal")
        m1 = pyhf.Model(copy.deepcopy(spec), poi_name="mu")
        fixed = m1.config.suggested_fixed()
        fixed[m1.config.poi_index] = True
        try:
            pyhf.infer.hypotest(1.0, data, m1, fixed_params=fixed, calctype=calctype, **kw)
            shard.violate("C08/fixed-poi-accepted", f"hypotest ran with the POI held fixed ({calctype})", case, "refusal")
        except E.InvalidModel:
            shard.ok("refusal")
        except Exception as e:
            shard.violate("C08/fixed-poi-wrong-exception", f"{type(e).__name__}: {str(e)[:150]} ({calctype})", case, "refusal")
        # fixed through the measurement configuration
        spec2 = copy.deepcopy(spec)
        spec2["parameters"] = [{"name": "mu", "fixed": True}]
        m2 = pyhf.Model(spec2, poi_name="mu")
        try:
            pyhf.infer.hypotest(1.0, data, m2, calctype=calctype, **kw)
            shard.violate("C08/fixed-poi-accepted", f"hypotest ran with the POI fixed in the measurement ({calctype})", case, "refusal")
        except E.InvalidModel:
            shard.ok("refusal")
        except Exception as e:
            shard.violate("C08/fixed-poi-wrong-exception", f"{type(e).__name__}: {str(e)[:150]} ({calctype})", case, "refusal")


def check_captured(case, shard, cap):
    """C07 feed (b): on a model with nuisances, what hypotest reports must be the 1007.1727 formulae
    applied to the q and q_A its own test-statistic calls returned."""
    import pyhf
    from pyhf import exceptions as E

    model = pyhf.Model(copy.deepcopy(case["spec"]), poi_name="mu")
    data = list(case["data"]) + list(model.config.auxdata)
    ts = case["test_stat"]
    mu_call = 0.0 if ts == "q0" else case["mu"]
    base = case.get("base", "normal")
    hkw = {}
    if case.get("fix_nuisance") is not None and case["fix_nuisance"] < model.config.npars and case["fix_nuisance"] != model.config.poi_index:
        # the caller holds one nuisance parameter constant at a value of their own: every fit of the test, the one behind
        # the Asimov dataset included, must respect it
        fi = case["fix_nuisance"]
        init_c, fixed_c = list(model.config.suggested_init()), list(model.config.suggested_fixed())
        lo_, hi_ = model.config.suggested_bounds()[fi]
        init_c[fi] = float(min(max(init_c[fi] + 0.35, lo_), hi_))
        fixed_c[fi] = True
        hkw = {"init_pars": init_c, "fixed_params": fixed_c}
        shard.covered("caller_settings", "a nuisance held constant through fixed_params")
    try:
        if case.get("previous_data"):
            # the same model object has already served a test of OTHER data: nothing of it may be remembered
            pyhf.infer.hypotest(mu_call, list(case["previous_data"]) + list(model.config.auxdata), model, test_stat=ts, calc_base_dist=base)
            shard.covered("model_reuse", "second dataset tested on the same model object")
        cap.events.clear()
        res = pyhf.infer.hypotest(mu_call, data, model, test_stat=ts, calc_base_dist=base, return_tail_probs=True, return_expected_set=True, **hkw)
    except E.FailedMinimization:
        shard.skip("fit reported failure")
        return
    stats = [e for e in cap.events if e[0] == "stat"]
    if len(stats) < 2:
        shard.skip("test-statistic calls not observed")
        return
    q, qA = stats[0][2], stats[1][2]
    # the dataset of the second statistic call is the Asimov dataset: it must be the model expectation at the fit of
    # THIS data conditional on the Asimov hypothesis (recomputed here through the public fit)
    amu = 1.0 if ts == "q0" else 0.0
    try:
        apars = pyhf.infer.mle.fixed_poi_fit(amu, data, model, hkw.get("init_pars"), None, hkw.get("fixed_params"))
        want = [float(x) for x in to_np(model.expected_data(apars))]
        used = stats[1][4]
        if used is None or len(used) != len(want) or any(abs(a - b) > 1e-6 * abs(b) + 1e-9 for a, b in zip(used, want)):
            shard.violate(f"C08/asimov-data:{ts}", f"Asimov dataset used {used} but the expectation at the mu={amu} conditional fit of the tested data is {want}; previous data on the same model: {case.get('previous_data')}; backend={case['backend']}", case, "asimov_data")
        else:
            shard.ok("asimov_data")
    except E.FailedMinimization:
        shard.skip("fit reported failure")
    want_fn = {"q": "qmu", "qtilde": "qmu_tilde", "q0": "q0"}[ts]
    if any(s[1] != want_fn for s in stats[:2]):
        shard.violate("C08/wrong-statistic", f"requested {ts} but observed calls {[s[1] for s in stats[:2]]}", case, "captured_formula")
        return
    if qA <= 1e-10 or math.sqrt(max(q, qA)) > 36:
        shard.skip("captured q_A ~ 0 or beyond representable tails")
        return
    rsb, rb, rs, args = RS.asymptotic_pvalues(q, qA, ts)
    rexp = RS.expected_pvalues(qA, ts, base)
    main = float(to_np(res[0]))
    tails = [float(to_np(x)) for x in res[1]]
    band = [float(to_np(x)) for x in res[2]]
    x = max(abs(a) for a in args)
    t9 = lambda r, xx: (1e-9 + 16 * 2.2e-16 * (1 + xx * xx)) * abs(r) + 1e-300
    bad = []
    mref = float(rsb if ts == "q0" else rs)
    if not abs(main - mref) <= t9(mref, x):
        bad.append(f"main {main!r} formula {mref!r}")
    for g, r in zip(tails, ([rb] if ts == "q0" else [rsb, rb])):
        if not abs(g - float(r)) <= t9(float(r), x):
            bad.append(f"tail {g!r} formula {float(r)!r}")
    for i, (esb, eb, es, t) in enumerate(rexp):
        r = float(esb if ts == "q0" else es)
        if not abs(band[i] - r) <= t9(r, abs(t) + math.sqrt(qA)):
            bad.append(f"band[{i}] {band[i]!r} formula {r!r}")
    if bad:
        shard.violate(f"C08/captured-formula:{ts}", "; ".join(bad[:3]) + f"; captured q={q!r} qA={qA!r} base={base} backend={case['backend']}", case, "captured_formula")
    else:
        shard.ok("captured_formula", 8)
        if 0 < main < 1:
            shard.nontrivial("captured", [len(c["samples"][0]["data"]) for c in case["spec"]["channels"]], case["data"], case["mu"], ts, base, case["backend"])


def make_counting(rng, backend):
    spec = c06.counting_spec(rng)
    ss, bs = c06.counting_arrays(spec)
    r = rng.random()
    if r < 0.12:
        data = [0.0 for _ in ss]
    elif r < 0.3:
        data = [float(gen.poisson_draw(rng, 0.6 * b)) for b in bs]
    elif r < 0.75:
        t = rng.choice([0.0, 1.0, 2.0])
        data = [float(gen.poisson_draw(rng, t * s + b)) for s, b in zip(ss, bs)]
    else:
        data = [float(gen.poisson_draw(rng, b + rng.uniform(3, 8) * s)) for s, b in zip(ss, bs)]
    mu = rng.choice([0.2, 0.5, 1.0, 1.0, 2.0, 3.5, 6.0, gen._round(rng.uniform(0.05, 9.5), 2)])
    return {"spec": spec, "data": data, "mu": mu, "test_stat": rng.choice(["qtilde", "qtilde", "q", "q0"]), "backend": backend, "seed": rng.randrange(1 << 30), "q0_negative_bound": rng.random() < 0.6}


def make_generated(rng, backend):
    import pyhf

    spec, _ = gen.gen_spec(rng, profile="wellposed", max_channels=2, max_samples=3, max_bins=3, max_nuis=8,
                           types=["normsys", "histosys", "shapesys", "staterror"])
    spec["parameters"] = []
    model = pyhf.Model(copy.deepcopy(spec), poi_name="mu")
    pars = model.config.suggested_init()
    pars[model.config.poi_index] = rng.choice([0.0, 1.0, 2.0])
    rates = [float(x) for x in to_np(model.expected_actualdata(pars))]
    data = [float(gen.poisson_draw(rng, x)) for x in rates]
    case = {"spec": spec, "data": data, "mu": rng.choice([0.5, 1.0, 2.0, 4.0]), "test_stat": rng.choice(["qtilde", "q", "q0"]),
            "base": rng.choice(["normal", "clipped_normal"]), "backend": backend}
    if rng.random() < 0.5:
        case["previous_data"] = [float(gen.poisson_draw(rng, x * rng.choice([0.7, 1.4]))) for x in rates]
    if rng.random() < 0.35:
        free = [i for i, f in enumerate(model.config.suggested_fixed()) if not f and i != model.config.poi_index]
        if free:
            case["fix_nuisance"] = rng.choice(free)
    return case


def plan(tier, seed):
    if tier == "quick":
        lay = [("numpy", 9, 3, 4)] * 11 + [("jax", 3, 1, 1)] * 2 + [("pytorch", 5, 1, 2)] * 2 + [("tensorflow", 2, 1, 1)]
    else:
        lay = [("numpy", 700, 100, 320)] * 10 + [("jax", 100, 15, 50)] * 2 + [("pytorch", 250, 25, 100)] * 2 + [("tensorflow", 80, 10, 40)] * 2
    return [{"backend": b, "n_count": a, "n_layout": l, "n_gen": g, "seed": seed * 3267000013 + i} for i, (b, a, l, g) in enumerate(lay)]


def run_shard(shard):
    import logging
    logging.disable(logging.CRITICAL)
    import pyhf

    p = shard.params
    pyhf.set_backend(p["backend"], "scipy", precision="64b")
    shard.covered("backends", p["backend"])
    attach.unwrap_all()
    cap = Capture()
    cap.install()
    rng = random.Random(p["seed"])
    for k in range(p["n_count"]):
        case = make_counting(rng, p["backend"])
        check_counting(case, shard, cap)
        if k == 0 and shard.index == 0:
            shard.sample(case)
    for k in range(p["n_layout"]):
        case = make_counting(rng, p["backend"])
        case["test_stat"] = ["qtilde", "q", "q0"][k % 3]
        check_layout(case, shard)
        if k == 0:
            tcase = dict(case, calctype="toybased", ntoys=30)
            check_layout(tcase, shard)
            check_refusals(case, shard)
    for k in range(p["n_gen"]):
        case = make_generated(rng, p["backend"])
        check_captured(case, shard, cap)


def replay(rec, shard):
    import logging
    logging.disable(logging.CRITICAL)
    import pyhf

    c = rec["case"]
    pyhf.set_backend(c.get("backend", "numpy"), "scipy", precision="64b")
    cap = Capture()
    cap.install()
    if "flags" in c:
        c.pop("flags")
        check_layout(c, shard)
    elif "base" in c:
        check_captured(c, shard, cap)
    else:
        check_counting(c, shard, cap)
        check_refusals(c, shard)
