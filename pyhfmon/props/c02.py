"""C02 — the log-likelihood is exactly the HistFactory template.

Boundary monitor on Model.logpdf / pdf / mainlogpdf / constraint_logpdf / expected_auxdata.
Oracle: term-by-term reference density.  The Poisson main term is evaluated at pyhf's *own*
expected_actualdata (isolates C02 from C01); the constraint terms come from the raw spec and
the measurement-level overrides and are paired with the auxiliary data through the reported
auxdata_order offsets.  Auxiliary data are perturbed independently of the parameters and are
pairwise distinct, so a permuted or mis-paired term changes the value.
"""
import math
import random

from .. import gen
from ..refmodel import FLOAT, Layout, RefModel
from . import c01
from .c03 import to_np

LEVEL = "exploration"
RULE = (
    "Structural generator (all five constrained modifier kinds, mixed Gaussian/Poisson constraint ordering, overrides of "
    "auxdata/sigmas/factors, lumi != 1) x 5 parameter points x main data {Poisson, zeros, Asimov non-integers, large} x "
    "auxiliary data {nominal, independently perturbed} x batch None/1-4 x backend. A case = (model, point, dataset); "
    "non-trivial when >=2 constrained sets of different pdf type or >=3 sets, aux != nominal and a non-integer datum; "
    "distinct by (shape signature, constraint signature, data kind, batch, backend)."
)
ASSUMPTIONS = [
    "tolerance |d| <= 1e-10*sum|terms| + 1e-10 in 64-bit (2e-4 in 32-bit): cancellation aware",
    "constraint components with zero nominal or zero uncertainty (pyhf pins their width and fixes the parameter) are judged "
    "by differences only: parameter and auxiliary datum of such a component are held fixed and the residual must be constant",
    "points with a non-positive rate are out of domain and skipped (counted)",
]
REQUIRED = ("logpdf", "main_plus_constraint", "aux_pairing", "expected_auxdata", "trajectory_logpdf")


def _constraint_signature(ref):
    cs = ref.constraint_spec()
    return tuple((n, cs[n][0]["kind"], len(cs[n])) for n in ref.L.auxdata_order)


def check_case(case, shard):
    import pyhf

    tb = pyhf.tensorlib
    p64 = case["precision"] == "64b"
    rel = 1e-10 if p64 else 2e-4
    model = c01.make_model(case)
    spec = case["spec"]
    L = Layout(model)
    ref = RefModel(spec, L)
    cs = ref.constraint_spec()
    offs = L.aux_offsets()
    rng = random.Random(case["seed"] + 2)
    flags = c01.alpha_flags(spec, L)
    bounds = model.config.suggested_bounds()
    init = model.config.suggested_init()
    nominal_aux = list(model.config.auxdata)
    N = case["batch"]
    # degenerate components: pin parameter and aux datum
    degenerate = []  # (par index, aux index)
    for name in L.auxdata_order:
        for i, comp in enumerate(cs[name]):
            if comp["degenerate"]:
                degenerate.append((L.par_slice[name][0] + i, offs[name] + i))
    residual0 = None
    kinds_seen = set()
    for k in range(5):
        rows_p, rows_d = [], []
        for r in range(N or 1):
            pars = gen.gen_point(rng, bounds, alpha_like=flags)
            # keep gammas of Poisson constraints strictly positive
            for name in L.auxdata_order:
                for i, comp in enumerate(cs[name]):
                    j = L.par_slice[name][0] + i
                    if comp["kind"] == "poisson" and pars[j] < 1e-3:
                        pars[j] = 1e-3 + rng.random() * 0.5
            for pi, ai in degenerate:
                pars[pi] = init[pi]
            rows_p.append(pars)
        arg = rows_p if N else rows_p[0]
        rates_all = to_np(model.expected_actualdata(tb.astensor(arg)))
        if not N:
            rates_all = [rates_all]
        skip = False
        for r in range(N or 1):
            rates = [float(x) for x in rates_all[r]]
            if any((not x > 0) for x in rates):
                skip = True
                break
            main, kind = gen.gen_maindata(rng, rates)
            kinds_seen.add(kind)
            aux = []
            perturbed = rng.random() < 0.7
            for name in L.auxdata_order:
                for i, comp in enumerate(cs[name]):
                    a0 = nominal_aux[offs[name] + i]
                    if not perturbed:
                        aux.append(float(a0))
                    elif comp["kind"] == "normal":
                        sg = comp["sigma"] or 1.0
                        aux.append(float(a0) + gen._round(rng.uniform(-1.5, 1.5) * sg, 5))
                    else:
                        aux.append(gen._round(max(float(a0), 1.0) * rng.uniform(0.5, 1.6), 4))
            for pi, ai in degenerate:
                aux[ai] = float(nominal_aux[ai])
            rows_d.append((main, aux, kind, perturbed, rates))
        if skip:
            shard.skip("non-positive rate (out of domain)")
            continue
        data_rows = [m + a for m, a, *_ in rows_d]
        darg = data_rows if N else data_rows[0]
        got = to_np(model.logpdf(arg, darg))
        want_shape = (N,) if N else (1,)
        if got.shape != want_shape:
            shard.violate("C02/logpdf-shape", f"logpdf shape {got.shape} != {want_shape}", case, "logpdf")
            continue
        got_pdf = to_np(model.pdf(arg, darg))
        t_pars, t_data = tb.astensor(arg), tb.astensor(darg)
        main_arg = tb.astensor([m for m, *_ in rows_d] if N else rows_d[0][0])
        got_main = to_np(model.mainlogpdf(main_arg, t_pars)).reshape(-1)
        has_aux = L.nauxdata > 0
        if has_aux:
            aux_arg = tb.astensor([a for _, a, *_ in rows_d] if N else rows_d[0][1])
            got_con = to_np(model.constraint_logpdf(aux_arg, t_pars)).reshape(-1)
            got_eaux = to_np(model.expected_auxdata(t_pars))
            if not N:
                got_eaux = [got_eaux]
        for r in range(N or 1):
            main, aux, kind, perturbed, rates = rows_d[r]
            pars = rows_p[r]
            mval, mscale = ref.main_logpdf(rates, main)
            cval, cscale, nt, nd = ref.constraint_logpdf(pars, aux)
            full = mval + cval
            scale = mscale + cscale
            lim = rel * scale + rel
            g = float(got[r])
            ctx = f"backend={case['backend']}-{case['precision']} batch={N} row={r} data={kind} aux_perturbed={perturbed} constraints={[(n, c[0]['kind'], len(c)) for n, c in cs.items()]}"
            if degenerate:
                res = g - full
                if residual0 is None:
                    residual0 = res
                    shard.ok("logpdf_degenerate_anchor")
                elif not abs(res - residual0) <= 2 * lim:
                    shard.violate("C02/logpdf-mismatch", f"logpdf residual w.r.t. reference changed from {residual0!r} to {res!r} (degenerate components pinned); {ctx}", dict(case, pars=pars, data=main + aux), "logpdf")
                else:
                    shard.ok("logpdf")
            else:
                if not abs(g - full) <= lim:
                    shard.violate("C02/logpdf-mismatch", f"logpdf={g!r} reference={full!r} (main {mval!r} + constraint {cval!r}, {nt} terms); {ctx}", dict(case, pars=pars, data=main + aux), "logpdf")
                else:
                    shard.ok("logpdf")
                    shard.maximum("abs_err_over_scale_" + case["precision"], abs(g - full) / (scale + 1))
            # main term on its own
            gm = float(got_main[r])
            if not abs(gm - mval) <= rel * mscale + rel:
                shard.violate("C02/mainlogpdf-mismatch", f"mainlogpdf={gm!r} reference={mval!r}; {ctx}", dict(case, pars=pars, data=main + aux), "mainlogpdf")
            else:
                shard.ok("mainlogpdf")
            if has_aux:
                gc = float(got_con[r])
                if not abs(gm + gc - g) <= lim:
                    shard.violate("C02/main-plus-constraint", f"mainlogpdf {gm!r} + constraint_logpdf {gc!r} != logpdf {g!r}; {ctx}", dict(case, pars=pars, data=main + aux), "main_plus_constraint")
                else:
                    shard.ok("main_plus_constraint")
                if not degenerate:
                    if not abs(gc - cval) <= rel * cscale + rel:
                        shard.violate("C02/constraint-mismatch", f"constraint_logpdf={gc!r} reference={cval!r} ({nt} terms); {ctx}", dict(case, pars=pars, data=main + aux), "constraint_logpdf")
                    else:
                        shard.ok("constraint_logpdf")
                # expected aux data
                ea = ref.expected_auxdata(pars)
                ge = [float(x) for x in got_eaux[r]]
                bad = [(i, ge[i], ea[i][0]) for i in range(len(ea)) if not ea[i][1] and not abs(ge[i] - ea[i][0]) <= (1e-9 if p64 else 2e-4) * (abs(ea[i][0]) + 1)]
                if len(ge) != len(ea) or bad:
                    shard.violate("C02/expected-auxdata", f"expected_auxdata {ge} vs reference {[e[0] for e in ea]} (first bad {bad[:1]}); {ctx}", dict(case, pars=pars), "expected_auxdata")
                else:
                    shard.ok("expected_auxdata")
            else:
                shard.ok("main_plus_constraint")
                shard.skip("model without constraint terms: main-term check only")
            # density is the exponential of the log-density
            gp = float(got_pdf[r])
            ex = math.exp(g) if g < 700 else math.inf
            if not abs(gp - ex) <= (1e-9 if p64 else 2e-4) * ex + (1e-300 if p64 else 2e-37):  # floor = smallest normal of the precision
                shard.violate("C02/pdf-not-exp", f"pdf={gp!r} exp(logpdf)={ex!r}; {ctx}", dict(case, pars=pars, data=main + aux), "pdf")
            else:
                shard.ok("pdf")
            nonint = any(abs(x - round(x)) > 1e-9 for x in main)
            ptypes = {c[0]["kind"] for c in cs.values()}
            if (len(ptypes) >= 2 or len(cs) >= 3) and perturbed and nonint:
                shard.nontrivial(c01.shape_signature(spec), _constraint_signature(ref), kind, N, case["backend"], case["precision"], k)
        # aux-pairing witness (unbatched): moving one aux datum alone changes the density by
        # exactly the reference change of the one term that owns it
        if not N and has_aux:
            main, aux, kind, perturbed, rates = rows_d[0]
            pars = rows_p[0]
            cand = [(n, i) for n in L.auxdata_order for i, comp in enumerate(cs[n]) if not comp["degenerate"]]
            if cand:
                n, i = cand[rng.randrange(len(cand))]
                comp = cs[n][i]
                j = offs[n] + i
                aux2 = list(aux)
                aux2[j] = aux[j] + (0.37 * (comp["sigma"] or 1.0) if comp["kind"] == "normal" else 1.7)
                g1 = float(got[0])
                g2 = float(to_np(model.logpdf(arg, main + aux2))[0])
                th = pars[L.par_slice[n][0] + i]
                from ..refmodel import log_normal, log_poisson
                if comp["kind"] == "normal":
                    d_ref = log_normal(FLOAT, aux2[j], th, comp["sigma"])[0] - log_normal(FLOAT, aux[j], th, comp["sigma"])[0]
                    sc = abs(log_normal(FLOAT, aux2[j], th, comp["sigma"])[1]) + abs(log_normal(FLOAT, aux[j], th, comp["sigma"])[1])
                else:
                    d_ref = log_poisson(FLOAT, aux2[j], th * comp["tau"])[0] - log_poisson(FLOAT, aux[j], th * comp["tau"])[0]
                    sc = log_poisson(FLOAT, aux2[j], th * comp["tau"])[1] + log_poisson(FLOAT, aux[j], th * comp["tau"])[1]
                total_scale = abs(g1) + abs(g2) + sc
                if not abs((g2 - g1) - d_ref) <= (1e-9 if p64 else 5e-4) * total_scale + (1e-9 if p64 else 1e-3):
                    shard.violate("C02/aux-pairing", f"moving aux datum {j} (owner {n}[{i}], {comp['kind']}) changed logpdf by {g2 - g1!r}, its own term changes by {d_ref!r}; {case['backend']}", dict(case, pars=pars, data=main + aux, aux_index=j), "aux_pairing")
                else:
                    shard.ok("aux_pairing")
    for n, c in cs.items():
        shard.covered("constraint_kinds", c[0]["kind"])
        types = {m["type"] for ch in spec["channels"] for s in ch["samples"] for m in s["modifiers"] if m["name"] == n}
        for t in types:
            shard.covered("constrained_modifier_types", t)
        if n in ref.user:
            for key in ("auxdata", "sigmas", "factors"):
                if key in ref.user[n]:
                    shard.covered("overrides", f"{sorted(types)[0]}:{key}")
    for kd in kinds_seen:
        shard.covered("data_kinds", kd)
    if degenerate:
        shard.covered("degenerate_components", "present")
        fixed = model.config.suggested_fixed()
        user_fixed = True
        if not all(fixed[pi] for pi, _ in degenerate):
            shard.covered("degenerate_components", "not reported fixed (informational)")


def check_trajectory(case, shard, stride=9):
    """Passive monitor: while an optimiser fits the model every `stride`-th logpdf call is compared with the
    term-by-term reference at the point the optimiser chose."""
    import pyhf
    from pyhf import exceptions as E

    tb = pyhf.tensorlib
    model = c01.make_model(dict(case, batch=None))
    spec = case["spec"]
    L = Layout(model)
    ref = RefModel(spec, L)
    cs = ref.constraint_spec()
    if any(comp["degenerate"] for comps in cs.values() for comp in comps):
        shard.skip("trajectory: model has degenerate constraint components (difference checks only)")
        return
    rng = random.Random(case["seed"] + 9)
    init = model.config.suggested_init()
    rates = [max(float(x), 0.3) for x in to_np(model.expected_actualdata(tb.astensor(init)))]
    main = [float(gen.poisson_draw(rng, r)) for r in rates]
    aux = [float(a) for a in model.config.auxdata]
    data = main + aux
    seen = []
    counter = [0]
    orig = model.logpdf

    def hooked(pars, d):
        out = orig(pars, d)
        counter[0] += 1
        if counter[0] % stride == 0 and len(seen) < 10:
            try:
                seen.append(([float(x) for x in to_np(pars)], float(to_np(out).reshape(-1)[0])))
            except Exception:
                pass
        return out

    model.logpdf = hooked
    try:
        pyhf.infer.mle.fit(data, model)
    except E.FailedMinimization:
        pass
    except Exception as e:
        shard.skip(f"trajectory fit raised {type(e).__name__}")
    finally:
        del model.logpdf
    for pars, got in seen:
        r_ = [float(x) for x in to_np(model.expected_actualdata(tb.astensor(pars)))]
        if any((not x > 0) for x in r_):
            shard.skip("non-positive rate (out of domain)")
            continue
        mval, mscale = ref.main_logpdf(r_, main)
        cval, cscale, nt, nd = ref.constraint_logpdf(pars, aux)
        if not abs(got - (mval + cval)) <= 1e-10 * (mscale + cscale) + 1e-10:
            shard.violate("C02/logpdf-mismatch", f"at an optimiser-visited point logpdf={got!r}, reference {mval + cval!r}", dict(case, pars=pars, data=data), "trajectory_logpdf")
        else:
            shard.ok("trajectory_logpdf")
    shard.counters["optimiser_calls_seen"] += counter[0]


def build_case(rng, backend, precision):
    case = c01.build_case(rng, backend, precision)
    case["clip_sample"] = case["clip_bin"] = None
    case["overrides"] = rng.random() < 0.6
    return case


def plan(tier, seed):
    if tier == "quick":
        layout = [("numpy", "64b", 30)] * 8 + [("jax", "64b", 10)] * 2 + [("pytorch", "64b", 16)] * 2 + [("tensorflow", "64b", 12)] * 2 + [("numpy", "32b", 12), ("pytorch", "32b", 10)]
    else:
        layout = [("numpy", "64b", 1400)] * 6 + [("jax", "64b", 300)] * 3 + [("pytorch", "64b", 800)] * 2 + [("tensorflow", "64b", 500)] * 2 + [("numpy", "32b", 800), ("pytorch", "32b", 500), ("jax", "32b", 200)]
    return [{"backend": b, "precision": p, "n": n, "seed": seed * 15485863 + i} for i, (b, p, n) in enumerate(layout)]


def run_shard(shard):
    import logging
    logging.disable(logging.CRITICAL)
    import pyhf

    p = shard.params
    pyhf.set_backend(p["backend"], precision=p["precision"])
    shard.covered("backends", f"{p['backend']}-{p['precision']}")
    rng = random.Random(p["seed"])
    for k in range(p["n"]):
        case = build_case(rng, p["backend"], p["precision"])
        check_case(case, shard)
        if k == 0 and shard.index in (0, 8):
            shard.sample({k2: v for k2, v in case.items() if not k2.startswith("_")})
        if p["backend"] == "numpy" and p["precision"] == "64b" and k % 4 == 1:
            check_trajectory(case, shard)


def replay(rec, shard):
    import logging
    logging.disable(logging.CRITICAL)
    import pyhf

    case = rec["case"]
    pyhf.set_backend(case["backend"], precision=case.get("precision", "64b"))
    for k in ("pars", "data", "aux_index"):
        case.pop(k, None)
    case["_ov_done"] = True
    check_case(case, shard)
