"""C09 — upper limits solve CLs(mu) = level at the requested level.

Monitor on upper_limit / toms748_scan / linear_grid_scan / intervals.upperlimit and on the inner
hypotest calls (as bound in the upper_limits module): the CLs curves are re-evaluated at the
returned limits through the real hypotest, crossing cells are located on the returned per-point
results, and the kwargs seen by the inner calls are compared with what the caller passed.
"""
import copy
import math
import random

from .. import attach, gen
from . import c06
from .c03 import to_np

LEVEL = "exploration"
RULE = (
    "Sensitive counting models and generated models with nuisance parameters x datasets x level in {0.01,0.05,0.1,0.2,0.32} x "
    "{automatic root-finding scan, linear grids of varying range/spacing bracketing the crossing} x forwarded hypothesis-test "
    "options (test_stat, par_bounds, calc_base_dist). A case = (model, data, level, scan mode, options); non-trivial when level "
    "!= 0.05 or the grid's crossing cell is interior; distinct by (model shape, data, level, mode, grid, options)."
)
ASSUMPTIONS = [
    "automatic scan: the level must be bracketed within mu*(1 +- 1e-3) (10x the root finder's rtol) and |CLs(limit)-level| <= 1% of the level",
    "grid scan: each limit must lie inside the grid cell where the returned curve crosses the level",
    "domain guard: curves that are not monotone on the evaluated points, or do not cross inside the range, are skipped and counted",
    "re-evaluation uses the real hypotest with the caller's options",
]
REQUIRED = ("auto_limit", "grid_limit", "ordering", "per_point_results", "kwargs_forwarded", "level_used")

LEVELS = [0.01, 0.05, 0.1, 0.2, 0.32]


class InnerCalls:
    def __init__(self):
        self.calls = []

    def install(self):
        import pyhf.infer
        import pyhf.infer.intervals.upper_limits  # noqa

        attach.unwrap_all()
        n = attach.wrap_function(pyhf.infer, "hypotest", self.hook)
        return n

    def hook(self, orig, args, kwargs):
        self.calls.append((float(args[0]), dict(kwargs)))
        return orig(*args, **kwargs)


def cls_curves(res):
    return [float(to_np(res[0]))] + [float(to_np(x)) for x in res[1]]


def check_case(case, shard, inner):
    import numpy as np
    import pyhf
    from pyhf import exceptions as E
    from pyhf.infer.intervals import upper_limits as UL

    model = pyhf.Model(copy.deepcopy(case["spec"]), poi_name="mu")
    data = list(case["data"]) + list(model.config.auxdata)
    level = case["level"]
    opts = dict(case["opts"])
    if "par_bounds_hi" in opts:
        b = [tuple(x) for x in model.config.suggested_bounds()]
        b[model.config.poi_index] = (0.0, opts.pop("par_bounds_hi"))
        opts["par_bounds"] = b
    ctx = f"level={level} mode={case['mode']} opts={case['opts']} data={case['data']} backend={case['backend']}"

    def hyp(mu):
        return cls_curves(pyhf.infer.hypotest(mu, data, model, return_expected_set=True, **opts))

    inner.calls.clear()
    try:
        if case["mode"] == "auto":
            fn = UL.upper_limit if not case.get("deprecated_api") else pyhf.infer.intervals.upperlimit
            obs, exp, (pts, results) = fn(data, model, level=level, return_results=True, **opts)
        elif case["mode"] == "toms748":
            lo_b, hi_b = case["bracket"]
            obs, exp = UL.toms748_scan(data, model, lo_b, hi_b, level=level, **opts)
            pts, results = None, None
        else:
            scan = np.asarray(case["grid_points"]) if case.get("grid_points") else np.linspace(case["grid"][0], case["grid"][1], case["grid"][2])
            if case.get("direct_grid"):
                obs, exp, (pts, results) = UL.linear_grid_scan(data, model, scan, level, True, **opts)
            else:
                obs, exp, (pts, results) = UL.upper_limit(data, model, scan, level, return_results=True, **opts)
    except E.FailedMinimization:
        shard.skip("fit reported failure")
        return
    except ValueError as e:
        # SciPy's root finder refusing a bracket / NaN curves are domain problems of the generated model, not verdicts
        shard.skip("scan raised ValueError (domain: crossing not bracketed or NaN curve)")
        return
    except Exception as e:
        shard.violate(f"C09/scan-raised:{case['backend']}", f"{case['mode']} scan raised {type(e).__name__}: {str(e)[:200]}; {ctx}", case, "auto_limit" if case["mode"] != "grid" else "grid_limit")
        return
    limits = [float(to_np(obs))] + [float(to_np(x)) for x in exp]
    calls = list(inner.calls)
    # ---- kwargs forwarded to every inner hypotest
    badkw = None
    for mu, kw in calls:
        for k, v in opts.items():
            if k not in kw or (kw[k] != v if k != "par_bounds" else [tuple(x) for x in kw[k]] != [tuple(x) for x in v]):
                badkw = (mu, k, kw.get(k, "<missing>"))
        if not kw.get("return_expected_set"):
            badkw = (mu, "return_expected_set", kw.get("return_expected_set"))
    if not calls:
        shard.skip("inner hypotest calls not observed")
    elif badkw:
        shard.violate("C09/kwargs-not-forwarded", f"inner hypotest(mu={badkw[0]}) saw {badkw[1]}={badkw[2]!r}, caller passed {opts}; {ctx}", case, "kwargs_forwarded")
    else:
        shard.ok("kwargs_forwarded")
    if any(not math.isfinite(x) for x in limits):
        shard.skip("a limit is not finite (curve does not cross inside the range)")
        return
    # ---- ordering of the expected limits
    if any(limits[i] > limits[i + 1] * (1 + 1e-9) for i in range(1, 5)):
        shard.violate("C09/expected-order", f"expected limits not ordered -2s..+2s: {limits[1:]}; {ctx}", case, "ordering")
    else:
        shard.ok("ordering")
    names = ["observed", "exp-2s", "exp-1s", "exp0", "exp+1s", "exp+2s"]
    if case["mode"] in ("auto", "toms748"):
        for idx in case.get("check_curves", [0, 3]):
            mu = limits[idx]
            try:
                c0 = hyp(mu)[idx]
                cl = hyp(mu * (1 - 1e-3))[idx]
                cr = hyp(mu * (1 + 1e-3))[idx]
            except E.FailedMinimization:
                shard.skip("fit reported failure")
                continue
            if not (cl >= cr):
                shard.skip("curve not decreasing around the limit (outside the property's premise)")
                continue
            ok_bracket = cl >= level * (1 - 1e-9) and cr <= level * (1 + 1e-9)
            ok_value = abs(c0 - level) <= 0.01 * level
            if not (ok_bracket and ok_value):
                # which level does the returned point solve?  (diagnostic for the known wrong-level mechanism)
                shard.violate(f"C09/auto-limit-not-at-level", f"{names[idx]} limit {mu!r}: CLs there = {c0!r}, at mu(1-1e-3) {cl!r}, at mu(1+1e-3) {cr!r}, requested level {level}; {ctx}", case, "auto_limit")
            else:
                shard.ok("auto_limit")
                shard.maximum("auto_rel_miss", abs(c0 - level) / level)
    else:
        grid = [float(x) for x in pts]
        curves = [cls_curves(r) for r in results]
        for idx in range(6):
            ys = [c[idx] for c in curves]
            if any(ys[i] < ys[i + 1] - 1e-12 for i in range(len(ys) - 1)):
                shard.skip("grid curve not monotone (outside the property's premise)")
                continue
            if not (ys[0] >= level >= ys[-1]):
                shard.skip("grid does not bracket the crossing for this curve")
                continue
            cell = next(i for i in range(len(ys) - 1) if ys[i] >= level >= ys[i + 1])
            lo_c, hi_c = grid[cell], grid[cell + 1]
            # ties: widen to all cells touching the level
            j = cell
            while j + 2 < len(ys) and ys[j + 1] == level:
                j += 1
                hi_c = grid[j + 1]
            if not (lo_c - 1e-9 <= limits[idx] <= hi_c + 1e-9):
                shard.violate("C09/grid-limit-outside-cell", f"{names[idx]} limit {limits[idx]!r} outside the crossing cell [{lo_c}, {hi_c}] (CLs {ys[cell]!r} -> {ys[cell + 1]!r}, level {level}); {ctx}", case, "grid_limit")
            else:
                shard.ok("grid_limit")
                if 0 < cell < len(ys) - 2:
                    shard.covered("grid_cell", "interior")
    # ---- per-point results are the hypotest results at the reported points
    if pts is not None:
        k = case["seed"] % len(pts)
        try:
            again = hyp(float(pts[k]))
            got = cls_curves(results[k])
            if any(abs(a - b) > 1e-7 * (abs(b) + 1e-12) for a, b in zip(got, again)):
                shard.violate("C09/per-point-results", f"returned result at mu={float(pts[k])!r} is {got}, hypotest there gives {again}; {ctx}", case, "per_point_results")
            else:
                shard.ok("per_point_results")
        except E.FailedMinimization:
            shard.skip("fit reported failure")
        if case["mode"] != "auto" and [float(x) for x in pts] != [float(x) for x in (case.get("grid_points") or np.linspace(case["grid"][0], case["grid"][1], case["grid"][2]))]:
            shard.violate("C09/per-point-results", "returned scan points differ from the supplied grid", case, "per_point_results")
    # ---- the threshold actually used is the caller's: a different level gives a different limit
    if case.get("second_level"):
        l2 = case["second_level"]
        try:
            if case["mode"] == "auto":
                obs2, exp2 = UL.upper_limit(data, model, level=l2, **opts)
            elif case["mode"] == "toms748":
                obs2, exp2 = UL.toms748_scan(data, model, *case["bracket"], level=l2, **opts)
            else:
                obs2, exp2 = UL.upper_limit(data, model, np.asarray(case["grid_points"]) if case.get("grid_points") else np.linspace(*case["grid"]), l2, **opts)
            o2 = float(to_np(obs2))
            want_lower = l2 > level
            inside = True
            if case["mode"] == "grid":
                g0, g1 = case["grid"][0], case["grid"][1]
                inside = g0 < o2 < g1 and g0 < limits[0] < g1
            if not inside:
                shard.skip("level comparison: a grid limit sits on the edge of the grid (crossing not bracketed)")
            elif math.isfinite(o2) and not ((o2 < limits[0]) if want_lower else (o2 > limits[0])):
                shard.violate("C09/level-ignored", f"observed limit at level {level} is {limits[0]!r}, at level {l2} it is {o2!r} (a higher threshold must give a lower limit); {ctx}", case, "level_used")
            else:
                shard.ok("level_used")
        except E.FailedMinimization:
            shard.skip("fit reported failure")
        except Exception as e:
            shard.skip(f"second-level scan raised {type(e).__name__}")
    if level != 0.05 or case["mode"] == "grid":
        shard.nontrivial([len(c["samples"][0]["data"]) for c in case["spec"]["channels"]], case["data"], level, case["mode"], case.get("grid"), sorted(case["opts"].items()), case["backend"])
    shard.covered("levels", level)
    if case.get("grid_points"):
        shard.covered("grid_spacing", "non-uniform")
    if case.get("signal_scale"):
        shard.covered("limit_magnitudes", "limit of order 1e-2 to 1e-3 (signal scaled by %g)" % case["signal_scale"])
        shard.maximum("smallest_limit_seen_inverse", 1.0 / max(min(limits), 1e-300))
    shard.covered("modes", case["mode"] + ("/deprecated-api" if case.get("deprecated_api") else "") + ("/direct" if case.get("direct_grid") else ""))
    for k in case["opts"]:
        shard.covered("forwarded_options", k)


def make_case(rng, backend, kind):
    import pyhf

    if kind == "counting":
        spec = c06.counting_spec(rng)
        # make it sensitive: boost the signal
        for ch in spec["channels"]:
            ch["samples"][0]["data"] = [gen._round(v * 2.0, 2) for v in ch["samples"][0]["data"]]
    else:
        spec, _ = gen.gen_spec(rng, profile="wellposed", max_channels=2, max_samples=3, max_bins=3, max_nuis=6,
                               types=["normsys", "histosys", "shapesys", "staterror"])
        spec["parameters"] = []
        for ch in spec["channels"]:
            for s in ch["samples"]:
                if s["name"] == "signal":
                    s["data"] = [gen._round(v * 1.5 + 3, 2) for v in s["data"]]
                    for m in s["modifiers"]:
                        if m["type"] == "histosys":
                            m["data"] = {"hi_data": [gen._round(v * 1.05, 3) for v in s["data"]], "lo_data": [gen._round(v * 0.95, 3) for v in s["data"]]}
                        if m["type"] in ("shapesys", "staterror"):
                            m["data"] = [gen._round(0.1 * v, 3) for v in s["data"]]
    model = pyhf.Model(copy.deepcopy(spec), poi_name="mu")
    pars = model.config.suggested_init()
    pars[model.config.poi_index] = rng.choice([0.0, 0.0, 0.5])
    rates = [float(x) for x in to_np(model.expected_actualdata(pars))]
    data = [float(gen.poisson_draw(rng, x)) for x in rates]
    level = rng.choice(LEVELS)
    mode = rng.choice(["auto", "auto", "grid", "grid", "toms748"])
    opts = {}
    r = rng.random()
    if r < 0.25:
        opts["test_stat"] = "q"
    elif r < 0.4:
        opts["calc_base_dist"] = "clipped_normal"
    elif r < 0.55:
        opts["par_bounds_hi"] = 12.0
    case = {"spec": spec, "data": data, "level": level, "mode": mode, "opts": opts, "backend": backend, "seed": rng.randrange(1 << 30)}
    if kind == "counting" and mode == "auto" and rng.random() < 0.4:
        # a signal normalised to a large cross-section: the limit sits at mu of order 1e-2 to 1e-3, where only a
        # tolerance RELATIVE to mu (the root finder's promise) locates it
        k = rng.choice([100.0, 300.0])  # (from ~1000 on SciPy SLSQP stalls at the default start mu=1: finding recorded under C05)
        for ch in spec["channels"]:
            ch["samples"][0]["data"] = [gen._round(v * k, 2) for v in ch["samples"][0]["data"]]
        case["signal_scale"] = k
    if mode == "grid":
        case["grid"] = [gen._round(rng.uniform(0.02, 0.15), 3), gen._round(rng.uniform(4.0, 9.5), 2), rng.randint(6, 14)]
        case["direct_grid"] = rng.random() < 0.3
        if rng.random() < 0.45:
            # grids "of any spacing": a wide first cell, a fine middle, a coarse tail
            lo_g, hi_g = case["grid"][0], case["grid"][1]
            a = lo_g + rng.uniform(0.3, 0.9)
            b = a + rng.uniform(0.8, 2.0)
            pts = [lo_g] + [a + k * (b - a) / 7 for k in range(8)] + [b + (hi_g - b) * f for f in (0.35, 0.7, 1.0)]
            case["grid_points"] = sorted(set(gen._round(x, 4) for x in pts))
            case["grid"] = [case["grid_points"][0], case["grid_points"][-1], len(case["grid_points"])]
    if mode == "toms748":
        case["bracket"] = [0.05, 8.0]
    if mode == "auto":
        case["deprecated_api"] = rng.random() < 0.25
    if rng.random() < 0.7 and backend in ("numpy", "pytorch"):
        case["second_level"] = rng.choice([l for l in LEVELS if l != level])
    if backend in ("jax", "tensorflow"):
        # slow backends (per-model jit compilation / 1.5 s per hypotest): one curve re-evaluated, small grids
        case["check_curves"] = [0]
        if mode == "grid" and not case.get("grid_points"):
            case["grid"][2] = 6
    case.setdefault("check_curves", [0, rng.randint(1, 5)])
    return case


def plan(tier, seed):
    if tier == "quick":
        lay = [("numpy", 4)] * 10 + [("jax", 1), ("jax", 1), ("pytorch", 3), ("pytorch", 3), ("tensorflow", 1), ("tensorflow", 1)]
    else:
        lay = [("numpy", 60)] * 12 + [("jax", 8), ("pytorch", 20), ("pytorch", 20), ("tensorflow", 6)]
    return [{"backend": b, "n": n, "seed": seed * 5915587277 + i} for i, (b, n) in enumerate(lay)]


def run_shard(shard):
    import logging
    import warnings
    logging.disable(logging.CRITICAL)
    warnings.simplefilter("ignore")
    import pyhf

    p = shard.params
    pyhf.set_backend(p["backend"], "scipy", precision="64b")
    shard.covered("backends", p["backend"])
    inner = InnerCalls()
    n = inner.install()
    shard.counters["hypotest_rebound_references"] += n
    rng = random.Random(p["seed"])
    for k in range(p["n"]):
        case = make_case(rng, p["backend"], "counting" if k % 2 == 0 else "generated")
        check_case(case, shard, inner)
        if k == 0 and shard.index == 0:
            shard.sample(case)


def replay(rec, shard):
    import logging
    import warnings
    logging.disable(logging.CRITICAL)
    warnings.simplefilter("ignore")
    import pyhf

    c = rec["case"]
    pyhf.set_backend(c.get("backend", "numpy"), "scipy", precision="64b")
    inner = InnerCalls()
    inner.install()
    check_case(c, shard, inner)
