"""C05 — maximum-likelihood fits return a feasible, honest, optimal point.

Passive postcondition monitor (fitmon) on every fit / fixed_poi_fit: bounds, exact fixing,
honest objective.  Driver-level oracles on the driver's own fits: an adversarial better-point
search with different algorithms (L-BFGS-B multi-start + Nelder-Mead), closed forms, and the
configuration matrix (stitch x grad x optimiser x backend).
"""
import copy
import math
import random

from .. import attach, fitmon, gen
from .. import refstats as RS
from . import c06
from .c03 import to_np

LEVEL = "exploration"
RULE = (
    "Well-posed generated models (all nuisances constrained, strictly positive expectations, <=10 nuisance components) and "
    "closed-form counting / shapefactor models x datasets (Poisson around several mu, zeros-deficit, Asimov non-integers) x "
    "initial points / bounds / fixed masks (fixed nuisance at a non-default value, POI fixed inside and at its bounds) x "
    "{scipy, minuit} x do_stitch x do_grad x backend. A case = (model, data, mask, configuration); non-trivial when >=3 free "
    "parameters, or an optimum on a bound, or a fixed nuisance at a non-default value; closed-form cases counted too. Two "
    "models per shard are also fitted through pyhf's unwrapped functions with every combination of the optional returns "
    "(objective value, result object, and for MINUIT uncertainties and correlations): whatever extras are asked for, the "
    "returned point obeys bounds and fixed values, the reported objective (and the result object) is twice the NLL at it, "
    "and it is not worse than the point of the plain call."
)
ASSUMPTIONS = [
    "global optimality is only refutable: an adversarial search (4-start L-BFGS-B + Nelder-Mead polish) must fail to beat the fit by more than 1e-4 (SciPy) / 2e-2 (MINUIT at its default tolerance 0.1; largest gap on clean code 1.3e-3) in 2NLL",
    "closed-form attainment is judged on the objective with the same margins",
    "fits that report failure on generated (non closed-form) models are skipped and counted",
    "bounds excess allowed 1e-12*(hi-lo+1); fixed values exact; objective 1e-8 relative",
]
REQUIRED = ("fit_bounds", "fit_fixed", "fit_objective", "better_point_search", "closed_form", "config_matrix", "nested_fits_observed", "return_options")

MARGIN = {"scipy": 1e-4, "minuit": 2e-2}  # >= 10x the largest gap seen on clean code (4e-7 / 1.3e-3 at MINUIT default tolerance 0.1)


def twice_nll_fn(model, data):
    import pyhf

    def f(x):
        try:
            v = float(to_np(model.logpdf(pyhf.tensorlib.astensor([float(t) for t in x]), data))[0])
        except Exception:
            return 1e300
        if not math.isfinite(v):
            return 1e300
        return -2 * v
    return f


def better_point(model, data, x, fun, bounds, fixed, init, rng, nstarts=3):
    """Try hard to find a feasible point with a lower objective than `fun`.  Returns (best_f, best_x)."""
    import numpy as np
    from scipy.optimize import minimize

    f_full = twice_nll_fn(model, data)
    free = [i for i, fx in enumerate(fixed) if not fx]
    base = np.array([float(v) for v in x], dtype=float)

    def f_free(z):
        y = base.copy()
        y[free] = z
        return f_full(y)

    fb = [(float(bounds[i][0]), float(bounds[i][1])) for i in free]
    best_f, best_z = f_free(base[free]), base[free].copy()
    starts = [base[free].copy()]
    for _ in range(nstarts):
        z = base[free].copy()
        for k, (lo, hi) in enumerate(fb):
            z[k] = min(max(z[k] + rng.uniform(-0.08, 0.08) * (hi - lo), lo), hi)
        starts.append(z)
    starts.append(np.array([min(max(float(init[i]), fb[k][0]), fb[k][1]) for k, i in enumerate(free)]))
    for z0 in starts:
        try:
            r = minimize(f_free, z0, method="L-BFGS-B", bounds=fb, options={"maxiter": 400, "ftol": 1e-13, "gtol": 1e-9})
            if r.fun < best_f:
                best_f, best_z = float(r.fun), r.x.copy()
        except Exception:
            pass
    try:
        def f_clip(z):
            zc = np.array([min(max(z[k], fb[k][0]), fb[k][1]) for k in range(len(fb))])
            return f_free(zc)
        r = minimize(f_clip, best_z, method="Nelder-Mead", options={"maxiter": 600 * len(free), "xatol": 1e-7, "fatol": 1e-10})
        zc = np.array([min(max(r.x[k], fb[k][0]), fb[k][1]) for k in range(len(fb))])
        if f_free(zc) < best_f:
            best_f, best_z = f_free(zc), zc
    except Exception:
        pass
    y = base.copy()
    y[free] = best_z
    return best_f, [float(v) for v in y]


def is_local_optimum(model, data, x, fun, bounds, fixed, margin):
    """Polish from the returned point only (L-BFGS-B then Nelder-Mead, no other starts): if that cannot improve the
    objective by more than the margin the optimiser did converge - to a local minimum of a multi-modal likelihood."""
    import numpy as np
    from scipy.optimize import minimize

    f_full = twice_nll_fn(model, data)
    free = [i for i, fx in enumerate(fixed) if not fx]
    base = np.array([float(v) for v in x], dtype=float)
    fb = [(float(bounds[i][0]), float(bounds[i][1])) for i in free]

    def f_free(z):
        y = base.copy()
        y[free] = z
        return f_full(y)

    best = f_free(base[free])
    try:
        r = minimize(f_free, base[free], method="L-BFGS-B", bounds=fb, options={"maxiter": 300, "ftol": 1e-13, "gtol": 1e-9})
        best = min(best, float(r.fun))
        z0 = r.x if r.fun <= best else base[free]
        r2 = minimize(lambda z: f_free(np.array([min(max(z[k], fb[k][0]), fb[k][1]) for k in range(len(fb))])), z0, method="Nelder-Mead",
                      options={"maxiter": 300 * len(free), "xatol": 1e-6, "fatol": 1e-9, "initial_simplex": None})
        best = min(best, float(r2.fun))
    except Exception:
        pass
    return fun - best <= margin


PREFIT = {"scipy": {"solver_options": {"ftol": 10.0}, "tolerance": 1.0}, "minuit": {"tolerance": 50.0, "strategy": 0}}


def set_opt(name):
    import pyhf
    pyhf.set_backend(pyhf.tensorlib, name)


def run_fit(model, data, init, bounds, fixed, poi_val=None, **kw):
    import pyhf
    if poi_val is None:
        return pyhf.infer.mle.fit(data, model, init, bounds, fixed, return_fitted_val=True, **kw)
    return pyhf.infer.mle.fixed_poi_fit(poi_val, data, model, init, bounds, fixed, return_fitted_val=True, **kw)


def check_generated(case, shard, mon, rng):
    import pyhf
    from pyhf import exceptions as E

    model = pyhf.Model(copy.deepcopy(case["spec"]), poi_name="mu")
    cfg = model.config
    data = case["data"] + list(cfg.auxdata)
    init = list(cfg.suggested_init())
    bounds = [tuple(b) for b in cfg.suggested_bounds()]
    fixed = list(cfg.suggested_fixed())
    if case["mask"] == "release":
        fixed = [False] * cfg.npars
    poi = cfg.poi_index
    # fixed mask: a nuisance fixed at a non-default value
    mask_kind = case["mask"]
    if mask_kind in ("nuisance", "both") and cfg.npars > 2:
        cand = [i for i in range(cfg.npars) if i != poi and not fixed[i]]
        i = cand[case["seed"] % len(cand)]
        fixed[i] = True
        lo, hi = bounds[i]
        init[i] = min(max(init[i] + 0.3, lo), hi)
        shard.covered("masks", "nuisance fixed at non-default value")
    if mask_kind == "release":
        # the model declares a nuisance constant (measurement config), the caller's mask releases it:
        # the fit must treat it as free (only the optimality oracles can see whether it did)
        shard.covered("masks", "model-fixed nuisance released by the caller's mask")
    poi_val = None
    if mask_kind in ("poi", "both"):
        poi_val = case["poi_val"]
        shard.covered("masks", f"POI fixed at {poi_val}" + (" together with a fixed nuisance" if mask_kind == "both" else ""))
    if poi_val is not None and case["seed"] % 2 == 0:
        # the caller's mask already flags the POI (a mask reused from an earlier conditional fit), its starting value is
        # still the old one: the fixed-POI fit must hold the POI at the value supplied NOW
        fixed[poi] = True
        shard.covered("masks", "POI already flagged fixed in the caller's mask, starting value different from the tested one")
    grads = [False] + ([True] if pyhf.tensorlib.name != "numpy" else [])
    mon.context = {"spec": case["spec"], "mask": mask_kind, "poi_val": poi_val}
    # how far is the fixed-POI hypothesis from the data?  (largest per-bin tension at the initial nuisance values)
    extreme = False
    if poi_val is not None:
        p0 = list(init)
        p0[poi] = poi_val
        exp0 = [float(v) for v in to_np(model.expected_actualdata(pyhf.tensorlib.astensor(p0)))]
        tension = max(abs(d - e) / math.sqrt(max(e, 1.0)) for d, e in zip(case["data"], exp0))
        extreme = tension > 6.0
        shard.maximum("largest_tension_of_a_fixed_poi_hypothesis", tension)

    def mech(name):
        # a hypothesis more than 6 sigma away from the data in some bin: the optimum sits at nuisance bounds in the
        # extrapolation regime; suboptimal "successful" fits there are a recorded finding with its own mechanism
        return "C05/suboptimal-at-extreme-conditional-fit" if extreme else name
    if sum(1 for i, f in enumerate(fixed) if not f and not (poi_val is not None and i == poi)) == 0:
        shard.skip("no free parameter left (nothing to fit)")
        return
    results = {}
    for opt in case["optimizers"]:
        set_opt(opt)
        if case.get("prefit"):
            # an earlier, deliberately coarse fit on the same optimizer object (per-call options): the fits that follow
            # are ordinary calls and must not inherit anything from it
            try:
                pyhf.infer.mle.fit(data, model, list(init), list(bounds), list(fixed), **PREFIT[opt])
            except Exception:
                pass
            shard.covered("histories", f"{opt}: coarse fit with per-call options before the judged fits")
        for stitch in (False, True):
            for grad in grads:
                key = (opt, stitch, grad)
                try:
                    x, fun = run_fit(model, data, list(init), list(bounds), list(fixed), poi_val, do_stitch=stitch, do_grad=grad)
                    results[key] = ([float(v) for v in to_np(x)], float(to_np(fun).reshape(-1)[0]))
                except E.FailedMinimization:
                    shard.skip(f"fit reported failure ({opt})")
                except Exception as e:
                    shard.violate("C05/fit-raised", f"fit raised {type(e).__name__}: {str(e)[:200]} with {key}", dict(case, key=list(key)), "config_matrix")
    set_opt("scipy")
    if not results:
        return
    fixed_eff = list(fixed)
    if poi_val is not None:
        fixed_eff[poi] = True
    best_key = min(results, key=lambda k: results[k][1])
    best = results[best_key][1]
    # configuration matrix
    for key, (x, fun) in results.items():
        m = MARGIN[key[0]]
        if fun - best > m:
            name = f"C05/config-disagreement:{key[0]}"
            if not extreme and is_local_optimum(model, data, x, fun, bounds, fixed_eff, m):
                name = "C05/local-minimum-of-multimodal-likelihood"
            shard.violate(mech(name), f"configuration {key} attains 2NLL={fun!r} but {best_key} attains {best!r} (difference {fun - best:.3g} > {m}); backend={pyhf.tensorlib.name} mask={mask_kind}", dict(case, results={str(k): v for k, v in results.items()}), "config_matrix")
        else:
            shard.ok("config_matrix")
            shard.maximum(f"config_spread_{key[0]}", fun - best)
    # the attained objective must not depend on the backend: refit on numpy and compare
    home = pyhf.tensorlib.name
    if home != "numpy":
        try:
            pyhf.set_backend("numpy", "scipy", precision="64b")
            m2 = pyhf.Model(copy.deepcopy(case["spec"]), poi_name="mu")
            x2, f2 = run_fit(m2, data, list(init), list(bounds), list(fixed), poi_val)
            f2 = float(to_np(f2).reshape(-1)[0])
            if abs(f2 - best) > 1e-4 + (MARGIN["minuit"] if best_key[0] == "minuit" else 0):
                name = "C05/backend-disagreement"
                worse_x = [float(v) for v in to_np(x2)] if f2 > best else results[best_key][0]
                if not extreme and is_local_optimum(m2 if f2 > best else model, data, worse_x, max(f2, best), bounds, [f or (poi_val is not None and i == poi) for i, f in enumerate(fixed)], 1e-4):
                    name = "C05/local-minimum-of-multimodal-likelihood"
                shard.violate(mech(name), f"numpy/scipy attains 2NLL={f2!r}, {home}/{best_key} attains {best!r}; mask={mask_kind}", dict(case, backend=home), "config_matrix")
            else:
                shard.ok("config_matrix")
                shard.covered("cross_backend_compared", f"{home} vs numpy")
                shard.maximum("cross_backend_spread", abs(f2 - best))
        except E.FailedMinimization:
            shard.skip("fit reported failure (numpy reference)")
        finally:
            pyhf.set_backend(home, "scipy", precision="64b")
    # adversarial better-point search (on one configuration per optimiser)
    if case.get("search", True):
        for opt in case["optimizers"]:
            keys = [k for k in results if k[0] == opt]
            if not keys:
                continue
            key = keys[case["seed"] % len(keys)]
            x, fun = results[key]
            bf, bx = better_point(model, data, x, fun, bounds, fixed_eff, init, rng)
            if fun - bf > MARGIN[opt]:
                name = f"C05/not-optimal:{opt}"
                if not extreme and is_local_optimum(model, data, x, fun, bounds, fixed_eff, MARGIN[opt]):
                    name = "C05/local-minimum-of-multimodal-likelihood"
                shard.violate(mech(name), f"fit {key} reported success with 2NLL={fun!r} but the feasible point {bx} has 2NLL={bf!r} (better by {fun - bf:.3g} > {MARGIN[opt]}); backend={pyhf.tensorlib.name} mask={mask_kind}", dict(case, x=x, better=bx), "better_point_search")
            else:
                shard.ok("better_point_search")
                shard.maximum(f"improvement_found_{opt}", fun - bf)
    nfree = sum(1 for f in fixed_eff if not f)
    xb = results[best_key][0]
    on_bound = any(abs(xb[i] - bounds[i][0]) < 1e-7 or abs(xb[i] - bounds[i][1]) < 1e-7 for i in range(len(xb)) if not fixed_eff[i])
    if nfree >= 3 or on_bound or mask_kind in ("nuisance", "both"):
        shard.nontrivial(c06.counting_arrays(case["spec"]) if case.get("kind") == "counting" else [len(c["samples"][0]["data"]) for c in case["spec"]["channels"]], case["data"], mask_kind, poi_val, pyhf.tensorlib.name, tuple(case["optimizers"]))
    if on_bound:
        shard.covered("optimum", "on a bound")


def check_closed_form(case, shard, mon, rng):
    """Signal-strength-only counting model (muhat from a 1-D concave problem) and a free
    per-bin shapefactor model (gamma_b = n_b / b_b): the fit must succeed and attain the optimum."""
    import pyhf
    from pyhf import exceptions as E

    spec = case["spec"]
    kind = case["kind"]
    spec_m = copy.deepcopy(spec)
    if case.get("release"):
        # every parameter is declared constant by the model and released by the caller's mask
        names = {m["name"] for c in spec_m["channels"] for s_ in c["samples"] for m in s_["modifiers"]}
        spec_m["parameters"] = [{"name": n, "fixed": True} for n in sorted(names)]
    model = pyhf.Model(spec_m, poi_name="mu" if kind == "counting" else None)
    cfg = model.config
    data = case["data"] + list(cfg.auxdata)
    bounds = [tuple(b) for b in cfg.suggested_bounds()]
    init = list(cfg.suggested_init())
    fixed = list(cfg.suggested_fixed())
    if case.get("release"):
        fixed = [False] * cfg.npars
        shard.covered("masks", "closed-form model with model-fixed parameters released by the caller's mask")
    if kind == "counting":
        ss, bs = c06.counting_arrays(spec)
        lo, hi = case["poi_bounds"]
        bounds[cfg.poi_index] = (lo, hi)
        init[cfg.poi_index] = min(max(1.0, lo), hi)
        muhat = RS.counting_muhat(case["data"], ss, bs, lo, hi)
        ref_fun = float(RS.counting_nll2(muhat, case["data"], ss, bs))
        ref_x = [float(muhat)]
    else:
        nom = spec["channels"][0]["samples"][0]["data"]
        ref_x = [min(max(n / b, 0.0), 10.0) for n, b in zip(case["data"], nom)]
        ref_fun = float(sum(RS.poisson_nll2(n, g * b) for n, g, b in zip(case["data"], ref_x, nom)))
    mon.context = {"spec": spec, "kind": kind}
    grads = [False] + ([True] if pyhf.tensorlib.name != "numpy" else [])
    for opt in case["optimizers"]:
        set_opt(opt)
        for stitch in (False, True):
            for grad in grads:
                key = (opt, stitch, grad)
                try:
                    x, fun = run_fit(model, data, list(init), list(bounds), list(fixed), None, do_stitch=stitch, do_grad=grad)
                except E.FailedMinimization as e:
                    shard.violate(f"C05/closed-form-fit-failed:{opt}", f"{kind} model with known optimum {ref_x}: fit {key} reported failure ({str(e)[:120]}); data={case['data']}", dict(case, key=list(key)), "closed_form")
                    continue
                except Exception as e:
                    shard.violate(f"C05/closed-form-fit-raised:{opt}", f"{kind} model with known optimum {ref_x}: fit {key} raised {type(e).__name__}: {str(e)[:150]}; backend={pyhf.tensorlib.name}", dict(case, key=list(key)), "closed_form")
                    continue
                fun = float(to_np(fun).reshape(-1)[0])
                if fun - ref_fun > MARGIN[opt]:
                    name = f"C05/closed-form-missed:{opt}"
                    xs = [float(v) for v in to_np(x)]
                    if opt == "scipy" and kind == "counting":
                        start_exp = [init[cfg.poi_index] * s_ + b_ for s_, b_ in zip(ss, bs)]
                        far = max(abs(n_ - e_) / math.sqrt(max(e_, 1.0)) for n_, e_ in zip(case["data"], start_exp))
                        if xs[cfg.poi_index] == init[cfg.poi_index] and far > 50.0:
                            # SLSQP returns the starting point itself, flagged successful, when the start lies this far
                            # from the data (recorded finding, its own mechanism)
                            name = "C05/slsqp-stalls-at-a-start-far-from-the-data"
                            shard.maximum("largest_start_tension_of_a_stalled_fit", far)
                    if opt == "minuit" and kind == "counting":
                        lo_b, hi_b = case["poi_bounds"]
                        near = min(abs(ref_x[0] - lo_b), abs(ref_x[0] - hi_b)) < 0.1 * (hi_b - lo_b)
                        between = min(ref_x[0], hi_b if abs(ref_x[0] - hi_b) < abs(ref_x[0] - lo_b) else lo_b) - 1e-9 <= xs[0] <= max(ref_x[0], hi_b if abs(ref_x[0] - hi_b) < abs(ref_x[0] - lo_b) else lo_b) + 1e-9
                        if near and between and fun - ref_fun < 0.5:
                            # MIGRAD's internal limit transformation flattens the objective next to a bound: it declares
                            # convergence between the optimum and the bound (recorded finding, its own mechanism)
                            name = "C05/minuit-stops-short-next-to-a-bound"
                    shard.violate(name, f"{kind} model: fit {key} attains 2NLL={fun!r} at {[float(v) for v in to_np(x)]}, closed-form optimum {ref_x} has {ref_fun!r}; data={case['data']} backend={pyhf.tensorlib.name}", dict(case, key=list(key)), "closed_form")
                else:
                    shard.ok("closed_form")
                    shard.maximum(f"closed_form_gap_{opt}", fun - ref_fun)
    # a fixed-POI fit of the signal-strength-only model leaves nothing free: it must still succeed, return the supplied
    # value and the honest objective (every hypothesis test on such a model makes this call).  Default path only: with
    # stitching there is no parameter left to hand to an optimiser at all.
    if kind == "counting" and not case.get("release") and not case.get("signal_scale"):
        mu_t = [0.0, 1.0, 2.5][case["data"] and int(sum(case["data"])) % 3]
        if lo <= mu_t <= hi:
            want = float(RS.counting_nll2(mu_t, case["data"], ss, bs))
            for opt in case["optimizers"]:
                set_opt(opt)
                try:
                    x, fun = run_fit(model, data, list(init), list(bounds), list(fixed), mu_t)
                    fun = float(to_np(fun).reshape(-1)[0])
                    xs = [float(v) for v in to_np(x)]
                    if xs != [mu_t] or not abs(fun - want) <= 1e-8 * (1 + abs(want)):
                        shard.violate(f"C05/nothing-free-fit-wrong:{opt}", f"fixed-POI fit at mu={mu_t} of a POI-only model returned {xs} with 2NLL {fun!r}, expected {[mu_t]} with {want!r}", dict(case, key=[opt, "fixed-poi", mu_t]), "closed_form")
                    else:
                        shard.ok("closed_form")
                        shard.covered("masks", f"{opt}: fixed-POI fit with no free parameter left")
                except Exception as e:
                    shard.violate(f"C05/nothing-free-fit-raised:{opt}", f"fixed-POI fit at mu={mu_t} of a POI-only model raised {type(e).__name__}: {str(e)[:150]}; backend={pyhf.tensorlib.name}", dict(case, key=[opt, "fixed-poi", mu_t]), "closed_form")
    set_opt("scipy")
    if case.get("signal_scale"):
        shard.covered("starts", f"default start mu=1 with the signal scaled by {case['signal_scale']:g} (hundreds of sigma from the data)")
    at_bound = kind == "counting" and (abs(ref_x[0] - case["poi_bounds"][0]) < 1e-9 or abs(ref_x[0] - case["poi_bounds"][1]) < 1e-9)
    if at_bound:
        shard.covered("optimum", "closed form on a bound")
    shard.nontrivial(kind, case["data"], case.get("poi_bounds"), pyhf.tensorlib.name, at_bound)


def check_nested(case, shard, mon):
    """Leave the passive monitor on while pyhf fits on its own behalf: every fit made inside test
    statistics, Asimov generation, toys and limit scans is judged by (a)-(c)."""
    import numpy as np
    import pyhf
    from pyhf import exceptions as E

    model = pyhf.Model(copy.deepcopy(case["spec"]), poi_name="mu")
    data = case["data"] + list(model.config.auxdata)
    mon.context = {"spec": case["spec"], "nested": True}
    before = mon.nfits
    try:
        pyhf.infer.hypotest(1.0, data, model, test_stat="qtilde", return_expected_set=True)
        pyhf.infer.hypotest(0.0, data, model, test_stat="q0")
        np.random.seed(case["seed"] % (2 ** 31))
        pyhf.infer.hypotest(1.0, data, model, calctype="toybased", ntoys=6, track_progress=False)
        if case.get("limit"):
            pyhf.infer.intervals.upper_limits.upper_limit(data, model, scan=np.linspace(0.1, 6.0, 6))
    except E.FailedMinimization:
        shard.skip("fit reported failure (nested workload)")
    except Exception as e:
        shard.skip(f"nested workload raised {type(e).__name__}: {str(e)[:120]} [{pyhf.tensorlib.name}]")
    shard.counters["nested_fits_observed"] += mon.nfits - before
    shard.covered("nested_callers", "hypotest(asymptotics), hypotest(q0), hypotest(toybased), upper_limit(grid)")


def check_return_options(case, shard, rng):
    """The fit's optional returns (objective value, result object, uncertainties, correlations): the clauses of the
    property (bounds, fixed values, honest objective, optimality) hold for the point returned under every combination.
    Uncertainties and correlations themselves are not part of the property and are not judged.
    Runs on the UNWRAPPED pyhf functions (before the passive fit monitor, which reassembles tuples itself, is installed)."""
    import numpy as np
    import pyhf
    from pyhf import exceptions as E

    model = pyhf.Model(copy.deepcopy(case["spec"]), poi_name="mu")
    cfg = model.config
    data = list(case["data"]) + list(cfg.auxdata)
    init, bounds, fixed = cfg.suggested_init(), cfg.suggested_bounds(), cfg.suggested_fixed()
    scal = [cfg.par_slice(n).start for n in cfg.par_order if n != "mu" and cfg.param_set(n).n_parameters == 1 and not cfg.param_set(n).suggested_fixed[0]]
    fixed_at = None
    if scal and rng.random() < 0.6:
        i = rng.choice(scal)
        lo, hi = bounds[i]
        init[i] = gen._round(init[i] + 0.3 * rng.choice([-1, 1]) * min(1.0, hi - init[i], init[i] - lo), 4)
        fixed[i] = True
        fixed_at = (i, init[i])
    f2 = twice_nll_fn(model, data)
    home = pyhf.tensorlib.name
    for opt in case["optimizers"]:
        set_opt(opt)
        stitch = rng.random() < 0.5
        kw = dict(do_stitch=stitch)
        ctx = f"optimizer={opt} backend={home} do_stitch={stitch} fixed={fixed_at}"
        c = dict(case, optimizer=opt, do_stitch=stitch, fixed_at=fixed_at, backend=home, kind="return-options")
        try:
            base = to_np(pyhf.infer.mle.fit(data, model, init, bounds, fixed, **kw))
        except E.FailedMinimization:
            shard.skip("fit reported failure")
            continue
        combos = [dict(return_fitted_val=True), dict(return_result_obj=True), dict(return_fitted_val=True, return_result_obj=True)]
        if opt == "minuit":
            combos += [dict(return_uncertainties=True), dict(return_uncertainties=True, return_fitted_val=True),
                       dict(return_correlations=True, return_fitted_val=True), dict(return_uncertainties=True, return_correlations=True, return_fitted_val=True, return_result_obj=True)]
        probs = []
        for combo in combos:
            try:
                res = pyhf.infer.mle.fit(data, model, init, bounds, fixed, **kw, **combo)
            except Exception as e:
                probs.append(f"{sorted(combo)} raised {type(e).__name__}: {str(e)[:120]}")
                continue
            res = list(res) if isinstance(res, tuple) else [res]
            want_len = 1 + sum(1 for k in ("return_correlations", "return_fitted_val", "return_result_obj") if combo.get(k))
            if len(res) != want_len:
                probs.append(f"{sorted(combo)}: {len(res)} results, expected {want_len}")
                continue
            x = to_np(res[0])
            if combo.get("return_uncertainties"):
                if x.shape != (cfg.npars, 2):
                    probs.append(f"{sorted(combo)}: parameter block has shape {x.shape}, expected {(cfg.npars, 2)}")
                    continue
                x = x[:, 0]
            if x.shape != (cfg.npars,):
                probs.append(f"{sorted(combo)}: parameters have shape {x.shape}, expected {(cfg.npars,)}")
                continue
            # the property's own clauses on the point this call returned
            if any(not (lo - 1e-12 * (hi - lo + 1) <= v <= hi + 1e-12 * (hi - lo + 1)) for v, (lo, hi) in zip(x, bounds)):
                probs.append(f"{sorted(combo)}: returned point {x.tolist()} leaves the bounds")
            if any(float(x[i]) != float(init[i]) for i, f in enumerate(fixed) if f):
                probs.append(f"{sorted(combo)}: a fixed parameter moved: {x.tolist()} (supplied {init}, mask {fixed})")
            here = f2(x)
            if here - f2(base) > MARGIN[opt]:
                probs.append(f"{sorted(combo)}: returned point is {here - f2(base):.3g} above the point of the plain call on 2NLL")
            k = 1
            if combo.get("return_correlations"):
                k += 1
            if combo.get("return_fitted_val"):
                try:
                    val = float(to_np(res[k]).reshape(-1)[0]) if np.size(to_np(res[k])) == 1 else float("nan")
                except Exception:
                    val = float("nan")
                k += 1
                if not abs(val - here) <= 1e-8 * (1 + abs(here)):
                    probs.append(f"{sorted(combo)}: reported objective {val!r} but twice the NLL at the returned point is {here!r}")
            if combo.get("return_result_obj"):
                obj = res[k]
                try:
                    ox = to_np(obj.x)
                    ox = ox[:, 0] if ox.ndim == 2 else ox
                    ofun = float(to_np(obj.fun).reshape(-1)[0])
                    okobj = np.array_equal(ox, x) and abs(ofun - here) <= 1e-8 * (1 + abs(here)) and bool(obj.success)
                except Exception as e:
                    okobj, ox, ofun = False, None, repr(e)
                if not okobj:
                    probs.append(f"{sorted(combo)}: result object (x={None if ox is None else ox.tolist()}, fun={ofun!r}) disagrees with the returned point and its objective")
        if fixed_at is not None and float(base[fixed_at[0]]) != float(fixed_at[1]):
            probs.append(f"fixed parameter {fixed_at[0]} moved from {fixed_at[1]!r} to {float(base[fixed_at[0]])!r}")
        if probs:
            shard.violate(f"C05/return-options:{opt}", "; ".join(probs[:3]) + f"; {ctx}", c, "return_options")
        else:
            shard.ok("return_options", len(combos))
            shard.covered("return_options", f"{opt}: {len(combos)} combinations, stitch={stitch}, fixed nuisance={'yes' if fixed_at else 'no'}")
    set_opt("scipy")


def make_generated(rng, optimizers):
    import pyhf

    spec, _ = gen.gen_spec(rng, profile="wellposed", max_channels=2, max_samples=3, max_bins=3, max_nuis=9,
                           types=["normsys", "histosys", "shapesys", "staterror"])
    spec["parameters"] = []
    model = pyhf.Model(copy.deepcopy(spec), poi_name="mu")
    truth = rng.choice([0.0, 0.5, 1.0, 2.0])
    pars = model.config.suggested_init()
    pars[model.config.poi_index] = truth
    rates = [float(x) for x in to_np(model.expected_actualdata(pars))]
    r = rng.random()
    if r < 0.15:
        data = [gen._round(x, 3) for x in rates]
    else:  # datasets drawn around the model expectation (the property's domain); large deficits make the
        # interpolated likelihood multi-modal (MINUIT found a local minimum 19.6 above the global one on a 0.7x deficit)
        data = [float(gen.poisson_draw(rng, x)) for x in rates]
    mask = rng.choice(["none", "nuisance", "poi", "poi", "release", "both"])
    poi_val = rng.choice([0.0, 0.0, 1.0, 2.5, 10.0, gen._round(rng.uniform(0, 5), 2)])
    if mask == "release":
        scal = [n for n in model.config.par_order if n != "mu" and model.config.param_set(n).n_parameters == 1]
        if scal:
            spec["parameters"] = [{"name": rng.choice(scal), "fixed": True}]
        else:
            mask = "none"
    return {"spec": spec, "data": data, "mask": mask, "poi_val": poi_val, "optimizers": optimizers, "seed": rng.randrange(1 << 30), "prefit": rng.random() < 0.4}


def make_closed(rng, optimizers):
    if rng.random() < 0.6:
        spec = c06.counting_spec(rng)
        ss, bs = c06.counting_arrays(spec)
        truth = rng.choice([0.0, 0.0, 1.0, 3.0, 12.0])
        scale = rng.choice([1.0, 1.0, 0.5])
        data = [float(gen.poisson_draw(rng, scale * (truth * s + b))) for s, b in zip(ss, bs)]
        if rng.random() < 0.1:
            data = [gen._round(truth * s + b, 3) for s, b in zip(ss, bs)]
        minratio = min(b / s for s, b in zip(ss, bs))
        lo = rng.choice([0.0, 0.0, -gen._round(min(0.5 * minratio, 3.0), 2)])
        case = {"kind": "counting", "spec": spec, "data": data, "poi_bounds": [lo, 10.0], "optimizers": optimizers, "release": rng.random() < 0.25}
        if rng.random() < 0.1:
            # a signal normalised to a large cross-section: the default starting value mu=1 is hundreds of standard
            # deviations away from data that sit near the background expectation
            k = rng.choice([1000.0, 3000.0, 10000.0])
            for ch in spec["channels"]:
                ch["samples"][0]["data"] = [gen._round(v * k, 2) for v in ch["samples"][0]["data"]]
            ss, bs = c06.counting_arrays(spec)
            t = rng.choice([0.0, 0.5, 2.0]) / k
            case["data"] = [float(gen.poisson_draw(rng, t * s + b)) for s, b in zip(ss, bs)]
            case["poi_bounds"] = [0.0, 10.0]
            case["signal_scale"] = k
        return case
    nb = rng.randint(1, 4)
    nom = [gen._round(rng.uniform(10, 80), 2) for _ in range(nb)]
    spec = {"channels": [{"name": "c", "samples": [{"name": "bkg", "data": nom, "modifiers": [{"name": "shape", "type": "shapefactor", "data": None}]}]}]}
    data = [float(gen.poisson_draw(rng, x * rng.uniform(0.5, 1.8))) for x in nom]
    data = [max(d, 1.0) for d in data]
    return {"kind": "shapefactor", "spec": spec, "data": data, "optimizers": optimizers, "release": rng.random() < 0.25}


def plan(tier, seed):
    if tier == "quick":
        lay = [("numpy", 6, 10)] * 10 + [("jax", 2, 3)] * 2 + [("pytorch", 3, 5)] * 2 + [("tensorflow", 1, 2)] * 2
    else:
        lay = [("numpy", 110, 160)] * 10 + [("jax", 25, 40)] * 2 + [("pytorch", 40, 60)] * 2 + [("tensorflow", 12, 20)] * 2
    return [{"backend": b, "n_gen": g, "n_closed": c, "seed": seed * 2038074743 + i} for i, (b, g, c) in enumerate(lay)]


def run_shard(shard):
    import logging
    logging.disable(logging.CRITICAL)
    import pyhf

    p = shard.params
    pyhf.set_backend(p["backend"], "scipy", precision="64b")
    shard.covered("backends", p["backend"])
    rng = random.Random(p["seed"])
    opts = ["scipy", "minuit"]
    rrng = random.Random(p["seed"] + 17)
    for k in range(p.get("n_ret", 2)):
        check_return_options(make_generated(rrng, opts), shard, rrng)
    mon = fitmon.install(shard, "C05")
    for k in range(p["n_closed"]):
        case = make_closed(rng, opts)
        check_closed_form(case, shard, mon, rng)
        if k == 0 and shard.index == 0:
            shard.sample(case)
    for k in range(p["n_gen"]):
        case = make_generated(rng, opts)
        check_generated(case, shard, mon, rng)
        if k == 0 and shard.index == 0:
            shard.sample(case)
    for k in range(p.get("n_nested", 2 if p["backend"] == "numpy" else 1)):
        case = make_generated(rng, opts)
        case["limit"] = k == 0
        check_nested(case, shard, mon)
    shard.counters["fits_observed"] += mon.nfits


def replay(rec, shard):
    import logging
    logging.disable(logging.CRITICAL)
    import pyhf

    c = rec["case"]
    be = c.get("backend", "numpy")
    pyhf.set_backend(be, "scipy", precision="64b")
    mon = fitmon.install(shard, "C05")
    rng = random.Random(1)
    if c.get("kind") == "return-options":
        attach.unwrap_all()
        check_return_options(dict(c, optimizers=[c["optimizer"]]), shard, random.Random(c.get("seed", 1)))
    elif "spec" in c and "optimizers" in c and c.get("kind") in ("counting", "shapefactor"):
        check_closed_form(c, shard, mon, rng)
    elif "spec" in c and "optimizers" in c:
        check_generated(c, shard, mon, rng)
    else:
        print("passive fit-monitor witness (context only):", str(c)[:2000])
