"""C03 — interpolation codes realise their defining piecewise functions for all alpha.

Boundary monitor on pyhf.interpolators.get(code)(hists)(alphas) (vectorised and scalar
implementations, every backend) against the independent reference in refinterp, plus
reference-free witnesses on pyhf's own outputs (continuity / C1 / C2 across breakpoints,
fresh-instance equality after call-shape histories).
"""
import math
import random

from .. import refinterp as R

LEVEL = "exploration"
RULE = (
    "Random positive (down, nominal, up) triples (asymmetric, inverted, one-sided, degenerate, ratios up to 1e3) in "
    "random (sets, histograms, bins) shapes x alpha vectors mixing a grid over [-8, 8] with nextafter ladders "
    "(1..2^10 ulps both sides) around every breakpoint x codes 0,1,2,4,4p (+ code4 with alpha0 in {0.5,2}) x "
    "vectorised and scalar implementations x backend. A case = (histogram batch, code, implementation, backend); "
    "non-trivial when the batch holds an asymmetric triple and alphas outside the core or within 2^10 ulps of a breakpoint."
)
ASSUMPTIONS = [
    "reference formulae in pyhfmon/refinterp.py (coefficients solved in 40-digit arithmetic; self-checked for neutrality, anchors and continuity at start of every run)",
    "64-bit precision only; tolerance 1e-9 x magnitude of the summed terms (cancellation aware)",
    "alpha0 != 1 reachable only through the code4 class constructor",
]
REQUIRED = ("value_fast", "value_slow", "history", "smoothness")

TOL = 1e-9
CODES = [0, 1, 2, 4, "4p"]


def _ladder(bp):
    out = [bp]
    for k in (1, 2, 4, 16, 1024):
        up = dn = bp
        for _ in range(min(k, 16)):
            up = math.nextafter(up, math.inf)
            dn = math.nextafter(dn, -math.inf)
        if k > 16:
            eps = abs(math.nextafter(bp if bp != 0 else 1.0, math.inf) - (bp if bp != 0 else 1.0))
            up, dn = bp + k * eps, bp - k * eps
        out += [up, dn]
    return out


def gen_triple(rng):
    nom = rng.choice([rng.uniform(0.5, 200.0), rng.uniform(1e-2, 1.0), rng.uniform(100, 1e4)])
    kind = rng.random()
    if kind < 0.45:
        up = nom * (1 + rng.uniform(0.005, 0.8))
        down = nom * (1 - rng.uniform(0.005, 0.8))
    elif kind < 0.6:  # inverted
        up = nom * (1 - rng.uniform(0.01, 0.6))
        down = nom * (1 + rng.uniform(0.01, 0.6))
    elif kind < 0.75:  # one-sided
        up = nom * (1 + rng.uniform(0.01, 0.6))
        down = nom * (1 + rng.uniform(0.01, 0.6))
    elif kind < 0.85:  # large ratios
        up = nom * rng.uniform(1, 1e3)
        down = nom / rng.uniform(1, 1e3)
    elif kind < 0.93:
        up = down = nom
    elif kind < 0.965:
        up = nom * (1 + rng.uniform(0.005, 0.8))
        down = nom
    else:  # the up variation leaves the bin unchanged, the down variation does not
        up = nom
        down = nom * (1 + rng.choice([-1, 1]) * rng.uniform(0.005, 0.8))
    return float(down), float(nom), float(up)


def gen_alphas(rng, n, a0=1.0):
    pts = []
    bps = [0.0, 1.0, -1.0, a0, -a0]
    while len(pts) < n:
        r = rng.random()
        if r < 0.25:
            pts.append(rng.uniform(-0.999, 0.999))
        elif r < 0.45:
            pts.append(rng.uniform(1.0, 8.0))
        elif r < 0.65:
            pts.append(rng.uniform(-8.0, -1.0))
        elif r < 0.75:
            pts.append(rng.choice(bps))
        else:
            pts.append(rng.choice(_ladder(rng.choice(bps))))
    return pts


def regime_of(code, a, a0=1.0):
    bps = R.breakpoints(code, a0)
    for bp in bps:
        if a == bp:
            return "breakpoint"
        scale = max(abs(bp), 1.0)
        if abs(a - bp) <= 1100 * 2.3e-16 * scale:
            return "near-breakpoint"
    edge = a0 if str(code) == "4" else 1.0
    if a > edge:
        return "extrap+"
    if a < -edge:
        return "extrap-"
    return "core"


def to_np(t):
    import numpy as np
    if hasattr(t, "detach"):
        t = t.detach()
    if hasattr(t, "numpy"):
        try:
            return np.asarray(t.numpy())
        except Exception:
            pass
    return np.asarray(t)


def check_batch(case, shard):
    """case: {'hists': [set][hist][3][bin], 'alphas': [set][n], 'code': c, 'alpha0': a0, 'backend': b}"""
    import pyhf

    tb = pyhf.tensorlib
    code, a0 = case["code"], case.get("alpha0", 1.0)
    hists, alphas = case["hists"], case["alphas"]
    kw = {"alpha0": a0} if (a0 != 1.0) else {}
    fast_cls = pyhf.interpolators.get(code)
    slow_cls = pyhf.interpolators.get(code, do_tensorized_calc=False)
    asym = False
    nontriv_alpha = False
    for impl, cls, mon in (("fast", fast_cls, "value_fast"), ("slow", slow_cls, "value_slow")):
        if impl == "slow" and case.get("skip_slow"):
            continue
        inst = cls(hists, subscribe=False, **kw) if impl == "fast" else cls(hists, **kw)
        out = to_np(inst(tb.astensor(alphas)))
        nset, nh, nb, na = len(hists), len(hists[0]), len(hists[0][0][0]), len(alphas[0])
        if out.shape != (nset, nh, na, nb):
            shard.violate(f"C03/code{code}:shape:{impl}", f"result shape {out.shape} != {(nset, nh, na, nb)}", case, mon)
            continue
        for s in range(nset):
            for h in range(nh):
                for b in range(nb):
                    dn, nm, up = hists[s][h][0][b], hists[s][h][1][b], hists[s][h][2][b]
                    if abs((up - nm) - (nm - dn)) > 1e-12 * nm:
                        asym = True
                    for ai in range(na):
                        a = alphas[s][ai]
                        ref, scale = R.interp_terms(code, dn, nm, up, a, a0)
                        got = float(out[s, h, ai, b])
                        reg = regime_of(code, a, a0)
                        if reg != "core":
                            nontriv_alpha = True
                        err = abs(got - ref)
                        lim = TOL * scale + 1e-300
                        if not (err <= lim):  # also catches NaN
                            shard.violate(
                                f"C03/code{code}:{reg}:{impl}",
                                f"code{code} {impl} backend={case['backend']} (down,nom,up)=({dn},{nm},{up}) alpha={a!r} alpha0={a0}: got {got!r}, reference {ref!r}",
                                {"code": code, "alpha0": a0, "backend": case["backend"], "hists": [[[[dn], [nm], [up]]]], "alphas": [[a]]},
                                mon,
                            )
                        else:
                            shard.ok(mon)
                            shard.maximum(f"relerr_code{code}", err / (scale + 1e-300))
                        shard.covered(f"regimes_code{code}", reg)
    if asym and nontriv_alpha:
        shard.nontrivial(case["backend"], code, a0, hists, alphas)


def check_history(case, shard):
    """Call one instance with a sequence of alpha-set shapes, then compare with a fresh instance."""
    import pyhf
    import numpy as np

    tb = pyhf.tensorlib
    code = case["code"]
    hists = case["hists"]
    cls = pyhf.interpolators.get(code)
    # "switch" entries re-announce the tensor library to a subscribed instance (precision 64b -> 32b -> 64b), which makes it
    # redo its precomputation with the call shape it remembers - the way an interpolator inside a Model lives
    switching = "switch" in case["history"]
    inst = cls(hists, subscribe=switching)
    shapes = []
    try:
        for al in case["history"]:
            if al == "switch":
                pyhf.set_backend(case["backend"], precision="32b")
                pyhf.set_backend(case["backend"], precision="64b")
                tb = pyhf.tensorlib
                shapes.append("switch")
                continue
            inst(tb.astensor(al))
            shapes.append((len(al), len(al[0])))
        final = case["alphas"]
        got = to_np(inst(tb.astensor(final)))
    except Exception as e:
        shard.violate(f"C03/code{code}:history", f"call after history {shapes} raised {type(e).__name__}: {str(e)[:200]}", case, "history")
        return
    fresh = to_np(cls(hists, subscribe=False)(tb.astensor(final)))
    if got.shape != fresh.shape or not np.array_equal(got, fresh, equal_nan=True):
        bad = float(np.max(np.abs(got - fresh))) if got.shape == fresh.shape else f"shape {got.shape} vs {fresh.shape}"
        shard.violate(f"C03/code{code}:history", f"value after call-shape history {shapes} differs from a fresh instance (max diff {bad})", case, "history")
    else:
        shard.ok("history")
        shard.covered("history_lengths", len(case["history"]))
        if switching:
            shard.covered("history_kinds", "with a tensor-library re-announcement between calls")
        shard.nontrivial("history", case["backend"], code, hists, shapes)


def check_smoothness(case, shard):
    """Reference-free: pyhf's own output must be continuous at the breakpoints; codes 4/4p must also
    have matching one-sided first and second derivatives there."""
    import pyhf

    tb = pyhf.tensorlib
    code, a0 = case["code"], case.get("alpha0", 1.0)
    dn, nm, up = case["triple"]
    kw = {"alpha0": a0} if a0 != 1.0 else {}
    inst = pyhf.interpolators.get(code)([[[[dn], [nm], [up]]]], subscribe=False, **kw)
    order = R.smooth_order(code)
    mag = abs(up) + abs(dn) + abs(nm) if R.ADDITIVE[R._norm(code)] else max(up / nm, dn / nm, 1.0) ** (a0 + 0.1)
    for bp in R.breakpoints(code, a0):
        h = 2e-4  # truncation error of the one-sided differences ~ h^2 f'''' (f'''' reaches 1e3-1e4 for alpha0=0.5): 4e-4 at most
        xs = [bp + k * h for k in range(-4, 5)]
        eps = [math.nextafter(bp, math.inf), math.nextafter(bp, -math.inf)]
        vals = to_np(inst(tb.astensor([xs + eps])))[0, 0, :, 0]
        f = {k: float(vals[k + 4]) for k in range(-4, 5)}
        fp, fm = float(vals[9]), float(vals[10])
        # continuity: neighbours one ulp apart
        lim0 = 1e-9 * mag
        if not (abs(fp - f[0]) <= lim0 and abs(fm - f[0]) <= lim0):
            shard.violate(f"C03/code{code}:discontinuous", f"code{code} jumps at alpha={bp}: f(bp-)={fm!r} f(bp)={f[0]!r} f(bp+)={fp!r} for (down,nom,up)=({dn},{nm},{up})", case, "smoothness")
            continue
        shard.ok("smoothness")
        if order >= 1:
            # one-sided 3rd-order accurate first derivatives (error O(h^3) f'''')
            dr = (-11 * f[0] + 18 * f[1] - 9 * f[2] + 2 * f[3]) / (6 * h)
            dl = (11 * f[0] - 18 * f[-1] + 9 * f[-2] - 2 * f[-3]) / (6 * h)
            if not abs(dr - dl) <= 1e-4 * mag:
                shard.violate(f"C03/code{code}:kink", f"code{code} first derivative jumps at alpha={bp}: left {dl!r} right {dr!r} triple=({dn},{nm},{up}) alpha0={a0}", case, "smoothness")
            else:
                shard.ok("smoothness")
        if order >= 2:
            # one-sided 2nd-order accurate second derivatives (error O(h^2) f''''; rounding eps*|f|/h^2 ~ 5e-9)
            d2r = (2 * f[0] - 5 * f[1] + 4 * f[2] - f[3]) / (h * h)
            d2l = (2 * f[0] - 5 * f[-1] + 4 * f[-2] - f[-3]) / (h * h)
            if not abs(d2r - d2l) <= 2e-3 * mag:
                shard.violate(f"C03/code{code}:curvature-jump", f"code{code} second derivative jumps at alpha={bp}: left {d2l!r} right {d2r!r} triple=({dn},{nm},{up}) alpha0={a0}", case, "smoothness")
            else:
                shard.ok("smoothness")
    shard.nontrivial("smooth", case["backend"], code, a0, case["triple"])


def make_batch(rng, backend, code, a0=1.0):
    nset, nh, nb = rng.randint(1, 4), rng.randint(1, 3), rng.randint(1, 4)
    hists = []
    for _ in range(nset):
        hs = []
        for _ in range(nh):
            tr = [gen_triple(rng) for _ in range(nb)]
            hs.append([[t[0] for t in tr], [t[1] for t in tr], [t[2] for t in tr]])
        hists.append(hs)
    na = rng.randint(1, 12)
    alphas = [gen_alphas(rng, na, a0) for _ in range(nset)]
    return {"backend": backend, "code": code, "alpha0": a0, "hists": hists, "alphas": alphas}


def plan(tier, seed):
    backends = ["numpy"] * 7 + ["jax"] * 3 + ["pytorch"] * 3 + ["tensorflow"] * 3
    n = 24 if tier == "quick" else 900
    return [{"backend": b, "n": n if b == "numpy" else max(n // 2, 10), "seed": seed * 7919 + i} for i, b in enumerate(backends)]


def run_shard(shard):
    import logging
    logging.disable(logging.CRITICAL)
    import pyhf

    p = shard.params
    rng = random.Random(p["seed"])
    pyhf.set_backend(p["backend"], precision="64b")
    shard.covered("backends", p["backend"])
    nid = R.selfcheck(20, seed=p["seed"])
    shard.counters["oracle_selfcheck_identities"] += nid
    for k in range(p["n"]):
        for code in CODES:
            a0s = [1.0]
            if code == 4 and k % 5 == 0:
                a0s.append(rng.choice([0.5, 2.0]))
            for a0 in a0s:
                case = make_batch(rng, p["backend"], code, a0)
                if p["backend"] != "numpy" and k % 3:
                    case["skip_slow"] = True
                check_batch(case, shard)
                if k == 0 and code == 4 and shard.index == 0:
                    shard.sample({"kind": "value", **case})
            # histories
            hc = make_batch(rng, p["backend"], code)
            nset = len(hc["hists"])
            hist = []
            for _ in range(rng.randint(2, 6)):
                na = rng.choice([1, 1, 2, 3, 7])
                hist.append([gen_alphas(rng, na) for _ in range(nset)])
            if rng.random() < 0.35:
                hist.insert(rng.randint(1, len(hist)), "switch")
            hc["history"] = hist
            check_history(hc, shard)
            # smoothness on pyhf's own output
            dn, nm, up = gen_triple(rng)
            if abs(math.log(up / nm)) < 3 and abs(math.log(dn / nm)) < 3:
                sc = {"backend": p["backend"], "code": code, "triple": [dn, nm, up], "alpha0": 1.0}
                if code == 4 and k % 4 == 0:
                    sc["alpha0"] = rng.choice([0.5, 2.0])
                check_smoothness(sc, shard)


def replay(rec, shard):
    import logging
    logging.disable(logging.CRITICAL)
    import pyhf

    case = rec["case"]
    pyhf.set_backend(case.get("backend", "numpy"), precision="64b")
    if "history" in case:
        check_history(case, shard)
    elif "triple" in case:
        check_smoothness(case, shard)
    else:
        check_batch(case, shard)
