"""C01 — expected event rates follow the HistFactory rate formula.

Boundary monitor on Model.expected_actualdata / expected_data / main_model.expected_data(
return_by_sample=True): every observed call is compared, bin by bin and sample by sample,
with the naive per-cell reference built from the raw spec and laid out by the *reported*
configuration.  The interpolation function is a black box evaluated through pyhf's public
scalar interface (C03 decides the formula, C01 the bookkeeping).
"""
import copy
import random

from .. import gen
from ..refmodel import BlackBoxInterp, Layout, RefModel
from .c03 import to_np

LEVEL = "exploration"
RULE = (
    "Structural generator: 1-4 channels, 1-4 samples, 1-5 bins, samples absent from some channels, any subset of the "
    "seven modifier types per sample, names shared across samples/channels/modifier types, shuffled listing order, "
    "zero yields/uncertainties, inverted and one-sided variations, lumi != 1, measurement-level overrides; x 6 points "
    "per model in every interpolation regime (core, both extrapolation sides, breakpoints, nextafter neighbours, bounds) "
    "x interpcode settings {code0,code2,code4p}x{code1,code4} x clipping off/on x batch None/1-4 x backend. A case = "
    "(model, settings, point); non-trivial when the spec has >=2 channels or >=2 samples, a parameter shared by >=2 "
    "cells, a bin-wise modifier, and the point has an |alpha|>1; distinct by (shape signature, sharing, regime vector, "
    "settings, backend)."
)
ASSUMPTIONS = [
    "reference rates are computed in float64 from the raw spec; tolerance 1e-9 (2e-4 in 32-bit) relative to the magnitude of the terms of each cell",
    "the interpolation formula itself is taken from pyhf's public scalar interpolator (decided by C03)",
    "positive clip thresholds are only used when every sample is present in every channel (what clipping does to absent samples is not stated by the property)",
    "spec shapes beyond the generator bounds and custom modifier sets are not explored",
]
REQUIRED = ("total_rate", "by_sample", "locality", "trajectory_rate")

HISTO_CODES = ["code0", "code2", "code4p"]
NORM_CODES = ["code1", "code4"]


def shape_signature(spec):
    sig = []
    for ch in spec["channels"]:
        sig.append((len(ch["samples"][0]["data"]),
                    tuple(sorted(tuple(sorted(m["type"] for m in s["modifiers"])) for s in ch["samples"]))))
    return tuple(sorted(sig))


def nontrivial_info(spec, model, alpha_like, pars_rows):
    nch = len(spec["channels"])
    nsamp = max(len(c["samples"]) for c in spec["channels"])
    idx = gen.spec_modifier_index(spec)
    shared = any(sum(len(v) for v in bt.values()) >= 2 for bt in idx.values())
    binwise = any(t in ("shapesys", "staterror", "shapefactor") for bt in idx.values() for t in bt)
    outside = any(abs(p[i]) > 1 for p in pars_rows for i, a in enumerate(alpha_like) if a)
    return (nch >= 2 or nsamp >= 2) and shared and binwise and outside


def build_case(rng, backend, precision="64b"):
    spec, info = gen.gen_spec(rng, profile="structural")
    settings = {"histosys": {"interpcode": rng.choice(HISTO_CODES)}, "normsys": {"interpcode": rng.choice(NORM_CODES)}}
    all_present = all(len(c["samples"]) == len({s["name"] for ch in spec["channels"] for s in ch["samples"]}) for c in spec["channels"])
    r = rng.random()
    clip_sample = clip_bin = None
    if r < 0.25:
        clip_sample = 0.0
    elif r < 0.35:
        clip_bin = 0.0
    elif r < 0.45:
        clip_sample, clip_bin = 0.0, rng.choice([0.0, 1.5])
    elif r < 0.5 and all_present:
        clip_sample = round(rng.uniform(0.5, 20.0), 2)
    batch = rng.choice([None, None, 1, 2, 3, 4])
    return {"spec": spec, "settings": settings, "clip_sample": clip_sample, "clip_bin": clip_bin,
            "batch": batch, "backend": backend, "precision": precision, "overrides": rng.random() < 0.5,
            "seed": rng.randrange(1 << 30)}


def make_model(case):
    import pyhf

    spec = copy.deepcopy(case["spec"])
    kw = dict(poi_name="mu", modifier_settings=case["settings"], batch_size=case["batch"])
    if case["clip_sample"] is not None:
        kw["clip_sample_data"] = case["clip_sample"]
    if case["clip_bin"] is not None:
        kw["clip_bin_data"] = case["clip_bin"]
    model = pyhf.Model(spec, **kw)
    if case.get("overrides") and "_ov_done" not in case:
        npar = {k: model.config.param_set(k).n_parameters for k in model.config.par_order}
        gen.add_overrides(random.Random(case["seed"]), case["spec"], npar)
        case["_ov_done"] = True
        model = pyhf.Model(copy.deepcopy(case["spec"]), **kw)
    return model


def alpha_flags(spec, layout):
    idx = gen.spec_modifier_index(spec)
    flags = [False] * layout.npars
    for name, bt in idx.items():
        if set(bt) & {"normsys", "histosys"}:
            flags[layout.par_slice[name][0]] = True
    return flags


def check_case(case, shard, points=None):
    import pyhf

    tb = pyhf.tensorlib
    tol = 1e-9 if case["precision"] == "64b" else 2e-4
    model = make_model(case)
    spec = case["spec"]
    L = Layout(model)
    ref = RefModel(spec, L)
    rng = random.Random(case["seed"] + 1)
    flags = alpha_flags(spec, L)
    bounds = model.config.suggested_bounds()
    N = case["batch"]
    npoints = 6
    if points is None:
        points = []
        for k in range(npoints):
            rows = [gen.gen_point(rng, bounds, alpha_like=flags, regime=None) for _ in range(N or 1)]
            points.append(rows)
    case["points"] = points
    codes = {"normsys": case["settings"]["normsys"]["interpcode"], "histosys": case["settings"]["histosys"]["interpcode"]}
    nsig = 0
    for rows in points:
        arg = rows if N else rows[0]
        got_total = to_np(model.expected_actualdata(tb.astensor(arg)))
        got_full = to_np(model.expected_data(arg))
        got_noaux = to_np(model.expected_data(arg, include_auxdata=False))
        got_bys = to_np(model.main_model.expected_data(tb.astensor(arg), return_by_sample=True))
        if N:
            shape_ok = got_total.shape == (N, L.nmaindata) and got_full.shape == (N, L.nmaindata + L.nauxdata) and got_bys.shape == (N, len(L.samples), L.nmaindata)
        else:
            shape_ok = got_total.shape == (L.nmaindata,) and got_full.shape == (L.nmaindata + L.nauxdata,) and got_bys.shape == (len(L.samples), L.nmaindata)
        if not shape_ok:
            shard.violate("C01/result-shape", f"shapes {got_total.shape} {got_full.shape} {got_bys.shape} for batch={N} nmain={L.nmaindata} naux={L.nauxdata}", case, "total_rate")
            continue
        for r, pars in enumerate(rows):
            bb = BlackBoxInterp()
            ref.rates(pars, bb.record, codes)
            bb.resolve()
            tot, bys, scale, sscale = ref.rates(pars, bb.lookup, codes, case["clip_sample"], case["clip_bin"])
            gt = got_total[r] if N else got_total
            gf = got_full[r] if N else got_full
            gn = got_noaux[r] if N else got_noaux
            gb = got_bys[r] if N else got_bys
            bad = None
            for g in range(L.nmaindata):
                lim = tol * (scale[g] + abs(tot[g])) + 1e-300
                for label, val in (("expected_actualdata", gt[g]), ("expected_data", gf[g]), ("expected_data(no aux)", gn[g])):
                    if not abs(float(val) - tot[g]) <= lim:
                        bad = (label, g, float(val), tot[g])
                shard.maximum("rel_err_total", abs(float(gt[g]) - tot[g]) / (scale[g] + abs(tot[g]) + 1e-300))
            if bad:
                ch = next(c for c in L.channels if L.channel_slices[c][0] <= bad[1] < L.channel_slices[c][1])
                shard.violate("C01/bin-rate-mismatch", f"{bad[0]} bin {bad[1]} (channel {ch}) = {bad[2]!r}, reference {bad[3]!r}; backend={case['backend']} settings={codes} clip=({case['clip_sample']},{case['clip_bin']}) batch={N} row={r}", dict(case, pars=pars), "total_rate")
            else:
                shard.ok("total_rate", L.nmaindata)
            badc = None
            for si, sname in enumerate(L.samples):
                for g in range(L.nmaindata):
                    lim = tol * (sscale[sname][g] + abs(bys[sname][g])) + 1e-300
                    if not abs(float(gb[si][g]) - bys[sname][g]) <= lim:
                        badc = (sname, g, float(gb[si][g]), bys[sname][g])
            if badc:
                shard.violate("C01/by-sample-mismatch", f"sample {badc[0]} bin {badc[1]} = {badc[2]!r}, reference {badc[3]!r}; backend={case['backend']} settings={codes} batch={N}", dict(case, pars=pars), "by_sample")
            else:
                shard.ok("by_sample", len(L.samples) * L.nmaindata)
            # by-sample consistency, reference free (clipping per bin off)
            if case["clip_bin"] is None:
                for g in range(L.nmaindata):
                    ssum = float(sum(float(gb[si][g]) for si in range(len(L.samples))))
                    if not abs(ssum - float(gt[g])) <= 10 * tol * (scale[g] + abs(ssum)) + 1e-300:
                        shard.violate("C01/by-sample-sum", f"sum over samples {ssum!r} != total {float(gt[g])!r} at bin {g}", dict(case, pars=pars), "by_sample")
                        break
            for i, a in enumerate(flags):
                if a:
                    shard.covered("alpha_regimes", "core" if abs(pars[i]) < 1 else ("breakpoint" if abs(pars[i]) in (0.0, 1.0) else "extrapolation"))
        # locality witness: perturbing one component leaves samples that do not declare it untouched
        if not N and case["clip_sample"] is None:
            pars = rows[0]
            i = rng.randrange(L.npars)
            owner = next(n for n in L.par_order if L.par_slice[n][0] <= i < L.par_slice[n][1])
            p2 = list(pars)
            lo, hi = bounds[i]
            p2[i] = pars[i] + 0.37 * (hi - pars[i]) if hi - pars[i] > pars[i] - lo else pars[i] - 0.37 * (pars[i] - lo)
            gb2 = to_np(model.main_model.expected_data(tb.astensor(p2), return_by_sample=True))
            gb1 = got_bys
            declares = {(c["name"], s["name"]) for c in spec["channels"] for s in c["samples"] for m in s["modifiers"] if m["name"] == owner}
            leak = None
            for si, sname in enumerate(L.samples):
                for c in L.channels:
                    if (c, sname) in declares:
                        continue
                    lo_g, hi_g = L.channel_slices[c]
                    for g in range(lo_g, hi_g):
                        if float(gb1[si][g]) != float(gb2[si][g]):
                            leak = (sname, c, g, float(gb1[si][g]), float(gb2[si][g]))
            if leak:
                shard.violate("C01/locality", f"changing parameter {owner}[{i - L.par_slice[owner][0]}] changed sample {leak[0]} in channel {leak[1]} (bin {leak[2]}: {leak[3]!r} -> {leak[4]!r}) which does not declare it", dict(case, pars=pars, pars2=p2), "locality")
            else:
                shard.ok("locality")
        if nontrivial_info(spec, model, flags, rows):
            regime = tuple(("o" if abs(p[i]) > 1 else "c") for p in rows for i, a in enumerate(flags) if a)
            shard.nontrivial(shape_signature(spec), sorted((n, sorted(bt)) for n, bt in gen.spec_modifier_index(spec).items()), regime, codes, case["clip_sample"], case["clip_bin"], N, case["backend"], case["precision"])
            nsig += 1
    for t in {m["type"] for c in spec["channels"] for s in c["samples"] for m in s["modifiers"]}:
        shard.covered("modifier_types", t)
    shard.covered("settings", f"{codes['histosys']}/{codes['normsys']}")
    shard.covered("batch", N)
    shard.covered("clip", f"{case['clip_sample']}/{case['clip_bin']}")
    shard.covered("n_channels", len(spec["channels"]))
    return model


def check_trajectory(case, shard, stride=7):
    """Passive monitor on the calls pyhf makes to itself: while an optimiser fits the model, every
    `stride`-th expected_data call of the main model is compared with the reference at the point the
    optimiser chose (bounds, far tails, large pulls)."""
    import pyhf
    from pyhf import exceptions as E

    tb = pyhf.tensorlib
    model = make_model(dict(case, batch=None, clip_sample=None, clip_bin=None))
    spec = case["spec"]
    L = Layout(model)
    ref = RefModel(spec, L)
    codes = {"normsys": case["settings"]["normsys"]["interpcode"], "histosys": case["settings"]["histosys"]["interpcode"]}
    rng = random.Random(case["seed"] + 5)
    init = model.config.suggested_init()
    rates = [max(float(x), 0.3) for x in to_np(model.expected_actualdata(tb.astensor(init)))]
    data = [float(gen.poisson_draw(rng, r * rng.choice([0.7, 1.0, 1.4]))) for r in rates] + list(model.config.auxdata)
    seen = []
    mm = model.main_model
    orig = mm.expected_data
    counter = [0]

    def hooked(pars, return_by_sample=False):
        out = orig(pars, return_by_sample=return_by_sample)
        counter[0] += 1
        if not return_by_sample and counter[0] % stride == 0 and len(seen) < 12:
            try:
                seen.append(([float(x) for x in to_np(pars)], [float(x) for x in to_np(out)]))
            except Exception:
                pass
        return out

    mm.expected_data = hooked
    try:
        pyhf.infer.mle.fit(data, model)
    except E.FailedMinimization:
        pass
    except Exception as e:
        shard.skip(f"trajectory fit raised {type(e).__name__}")
    finally:
        mm.expected_data = orig
    tol = 1e-9
    for pars, got in seen:
        bb = BlackBoxInterp()
        ref.rates(pars, bb.record, codes)
        bb.resolve()
        tot, _, scale, _ = ref.rates(pars, bb.lookup, codes)
        bad = [(g, got[g], tot[g]) for g in range(L.nmaindata) if not abs(got[g] - tot[g]) <= tol * (scale[g] + abs(tot[g])) + 1e-300]
        if bad:
            shard.violate("C01/bin-rate-mismatch", f"at an optimiser-visited point: bin {bad[0][0]} = {bad[0][1]!r}, reference {bad[0][2]!r}; settings={codes}", dict(case, pars=pars), "trajectory_rate")
        else:
            shard.ok("trajectory_rate", L.nmaindata)
            shard.maximum("largest_abs_alpha_visited_by_optimiser", max([abs(p) for p in pars] + [0]))
    shard.counters["optimiser_calls_seen"] += counter[0]


def plan(tier, seed):
    if tier == "quick":
        layout = [("numpy", "64b", 22)] * 8 + [("jax", "64b", 8)] * 2 + [("pytorch", "64b", 12)] * 2 + [("tensorflow", "64b", 10)] * 2 + [("numpy", "32b", 10), ("pytorch", "32b", 8)]
    else:
        layout = [("numpy", "64b", 1000)] * 6 + [("jax", "64b", 240)] * 3 + [("pytorch", "64b", 600)] * 2 + [("tensorflow", "64b", 400)] * 2 + [("numpy", "32b", 600), ("pytorch", "32b", 400), ("jax", "32b", 160)]
    return [{"backend": b, "precision": p, "n": n, "seed": seed * 104729 + i} for i, (b, p, n) in enumerate(layout)]


def run_shard(shard):
    import logging
    logging.disable(logging.CRITICAL)
    import pyhf

    p = shard.params
    pyhf.set_backend(p["backend"], precision=p["precision"])
    shard.covered("backends", f"{p['backend']}-{p['precision']}")
    rng = random.Random(p["seed"])
    for k in range(p["n"]):
        case = build_case(rng, p["backend"], p["precision"])
        check_case(case, shard)
        if k == 0 and shard.index in (0, 9):
            shard.sample({k2: v for k2, v in case.items() if not k2.startswith("_")})
        if p["backend"] == "numpy" and p["precision"] == "64b" and k % 4 == 0:
            check_trajectory(case, shard)


def replay(rec, shard):
    import logging
    logging.disable(logging.CRITICAL)
    import pyhf

    case = rec["case"]
    pyhf.set_backend(case["backend"], precision=case.get("precision", "64b"))
    case.pop("pars", None)
    case.pop("pars2", None)
    case["_ov_done"] = True
    check_case(case, shard, points=case.get("points"))
