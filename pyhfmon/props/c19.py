"""C19 — the command line returns what the library returns.

Boundary monitor on CLI invocations (click CliRunner on pyhf.cli.cli.pyhf in bulk, real
processes running the console-script entry point for the stdin/stdout paths).  Oracle: the library call on the
same inputs in a fresh backend state, option by option; exit status must agree with whether the
library call succeeds; file output must equal standard output.
"""
import copy
import json
import math
import os
import random
import shutil
import subprocess
import sys
import tempfile

from .. import VERIF, gen
from . import c17, c18
from .c03 import to_np

LEVEL = "exploration"
RULE = (
    "Generated workspaces with >=2 measurements and patch files, patch sets over them; every subcommand (cls, fit, inspect, prune, "
    "rename, combine, sort, digest, patchset extract/apply/verify/inspect, json2xml, xml2json) with random option combinations "
    "(measurement, patches, test POI, test statistic, calculator type, backend, optimizer and optconf, join mode, merge flag, "
    "algorithms, selections, patch name, with/without metadata), input via file or stdin, output via file or stdout, plus "
    "failing invocations (unknown measurement/patch/channel, clashing combine, corrupted digest). A case = one invocation; "
    "non-trivial when it sets >=2 non-default options, reads stdin or writes a file."
)
ASSUMPTIONS = [
    "each CliRunner invocation starts from the default backend state (numpy/scipy), as a fresh process does",
    "JSON numbers compared at 1e-10 relative (the library call repeats the same computation); texts compared exactly where the library defines them",
    "toy-based cls is only run once per run on a tiny model (exit status and layout; no seed/ntoys option exists on the CLI)",
    "contrib and shell-completion subcommands are outside the property",
]
REQUIRED = ("cls", "fit", "inspect", "prune", "rename", "combine", "sort", "digest", "patchset", "rootio", "exit_status", "file_equals_stdout")


def deep_close(a, b, rel=1e-10):
    if isinstance(a, dict) and isinstance(b, dict):
        return set(a) == set(b) and all(deep_close(a[k], b[k], rel) for k in a)
    if isinstance(a, (list, tuple)) and isinstance(b, (list, tuple)):
        return len(a) == len(b) and all(deep_close(x, y, rel) for x, y in zip(a, b))
    if isinstance(a, bool) or isinstance(b, bool):
        return a == b
    if isinstance(a, (int, float)) and isinstance(b, (int, float)):
        if math.isnan(a) and math.isnan(b):
            return True
        return abs(a - b) <= rel * (abs(a) + abs(b)) + 1e-300
    return a == b


class Env:
    def __init__(self, shard, root):
        self.shard = shard
        self.root = root
        self.n = 0

    def path(self, name):
        return os.path.join(self.root, name)

    def write(self, name, obj):
        p = self.path(name)
        with open(p, "w") as f:
            json.dump(obj, f)
        return p

    def invoke(self, args, stdin=None):
        """Run one CLI invocation from the default backend state; return (exit_code, stdout)."""
        import pyhf
        from click.testing import CliRunner
        from pyhf.cli.cli import pyhf as cli

        pyhf.set_backend("numpy", "scipy", precision="64b")
        self.n += 1
        try:
            runner = CliRunner(mix_stderr=False)
        except TypeError:
            runner = CliRunner()
        res = runner.invoke(cli, args, input=stdin, catch_exceptions=True)
        out = res.stdout if hasattr(res, "stdout") else res.output
        pyhf.set_backend("numpy", "scipy", precision="64b")
        return res.exit_code, out, res

    def library(self, fn):
        """Run the library equivalent from the default backend state; return (ok, value or exception)."""
        import pyhf

        pyhf.set_backend("numpy", "scipy", precision="64b")
        try:
            v = fn()
            ok = True
        except Exception as e:  # noqa
            v, ok = e, False
        pyhf.set_backend("numpy", "scipy", precision="64b")
        return ok, v

    def judge(self, monitor, args, stdin, lib_fn, parse=json.loads, compare=deep_close, outfile=None, nondefault=0, text=False):
        shard = self.shard
        code, out, res = self.invoke(args, stdin)
        ok_lib, val = self.library(lib_fn)
        case = {"args": [a if not str(a).startswith(self.root) else os.path.basename(str(a)) for a in args], "stdin": bool(stdin), "monitor": monitor}
        if (code == 0) != ok_lib:
            exc = None if ok_lib else f"{type(val).__name__}: {str(val)[:120]}"
            cli_exc = None if code == 0 else (f"{type(res.exception).__name__}: {str(res.exception)[:120]}" if res.exception else f"exit {code}")
            shard.violate(f"C19/exit-status:{monitor}", f"pyhf {' '.join(map(str, case['args']))}: exit code {code} ({cli_exc}) but the library call {'succeeds' if ok_lib else 'fails with ' + str(exc)}", case, "exit_status")
            return None
        shard.ok("exit_status")
        if not ok_lib:
            shard.covered("failing_invocations", monitor)
            return None
        try:
            if outfile:
                with open(outfile) as f:
                    got = parse(f.read())
            else:
                got = parse(out)
        except Exception as e:
            shard.violate(f"C19/output-unparseable:{monitor}", f"pyhf {' '.join(map(str, case['args']))}: output not parseable ({type(e).__name__}); first 200 chars: {out[:200]!r}", case, monitor)
            return None
        want = json.loads(json.dumps(val, default=lambda o: to_np(o).tolist())) if not text else val
        if not compare(got, want):
            shard.violate(f"C19/{monitor}-differs", f"pyhf {' '.join(map(str, case['args']))}: CLI gives {str(got)[:300]} but the library gives {str(want)[:300]}", case, monitor)
            return None
        shard.ok(monitor)
        if nondefault >= 2 or stdin or outfile:
            shard.nontrivial(monitor, case["args"], bool(stdin), bool(outfile))
        for a in args:
            if isinstance(a, str) and a.startswith("-"):
                shard.covered(f"options_{monitor}", a)
        return got


def lib_model(ws, measurement, patches):
    import pyhf
    w = pyhf.Workspace(ws)
    return w, w.model(measurement_name=measurement, patches=patches,
                      modifier_settings={"normsys": {"interpcode": "code4"}, "histosys": {"interpcode": "code4p"}})


def set_lib_backend(backend, optimizer, optconf):
    import pyhf
    name = {"np": "numpy", "torch": "pytorch", "tf": "tensorflow"}.get(backend, backend)
    if name != "numpy":
        pyhf.set_backend(name, precision="64b") if name != "jax" else pyhf.set_backend("jax")
    tb, _ = pyhf.get_backend()
    opt = getattr(pyhf.optimize, f"{optimizer}_optimizer")(**optconf)
    pyhf.set_backend(tb, opt)
    return tb


def run_infer(env, rng, ws, wsfile, patchfiles, patches, heavy):
    import pyhf

    meas_names = [m["name"] for m in ws["measurements"]]
    for sub in ("cls", "fit"):
        args = [sub]
        nd = 0
        measurement = None
        if rng.random() < 0.6:
            measurement = rng.choice(meas_names)
            args += ["--measurement", measurement]
            nd += 1
        use_patches = []
        if patchfiles and rng.random() < 0.5:
            k = rng.randrange(len(patchfiles))
            args += ["-p", patchfiles[k]]
            use_patches = [patches[k]]
            nd += 1
        backend = "numpy"
        if heavy and rng.random() < 0.7:
            backend = rng.choice(["jax", "pytorch", "torch", "tensorflow", "tf", "np"])
            args += ["--backend", backend]
            nd += 1
        optimizer, optconf = "scipy", {}
        if rng.random() < 0.4:
            optimizer = rng.choice(["scipy", "minuit"])
            args += ["--optimizer", optimizer]
            nd += 1
            if rng.random() < 0.5:
                if optimizer == "minuit":
                    optconf = {"tolerance": 0.01}
                    args += ["--optconf", "tolerance=0.01"]
                else:
                    optconf = {"maxiter": 5000}
                    args += ["--optconf", "maxiter=5000"]
                nd += 1
        stdin = None
        if rng.random() < 0.3:
            stdin = json.dumps(ws)
        else:
            args.insert(1, wsfile)
        outfile = None
        if rng.random() < 0.4:
            outfile = env.path(f"out_{env.n}.json")
            args += ["--output-file", outfile]
        if sub == "cls":
            poi, ts = 1.0, "qtilde"
            if rng.random() < 0.6:
                poi = rng.choice([0.5, 2.0, 1.5])
                args += ["--test-poi", str(poi)]
                nd += 1
            if rng.random() < 0.5:
                ts = rng.choice(["q", "qtilde"])
                args += ["--test-stat", ts]
                nd += 1

            def lib():
                w, model = lib_model(ws, measurement, use_patches)
                tb = set_lib_backend(backend, optimizer, optconf)
                r = pyhf.infer.hypotest(poi, w.data(model), model, test_stat=ts, calctype="asymptotics", return_expected_set=True)
                return {"CLs_obs": tb.tolist(r[0]), "CLs_exp": [tb.tolist(t) for t in r[-1]]}
            env.judge("cls", args, stdin, lib, outfile=outfile, nondefault=nd, compare=lambda a, b: deep_close(a, b, 1e-7))
        else:
            value = rng.random() < 0.6
            if value:
                args += ["--value"]
                nd += 1

            def lib():
                w = pyhf.Workspace(ws)
                model = w.model(measurement_name=measurement, patches=use_patches)
                tb = set_lib_backend(backend, optimizer, optconf)
                r = pyhf.infer.mle.fit(w.data(model), model, return_fitted_val=value)
                pars = r if not value else r[0]
                out = {"mle_parameters": {k: tb.tolist(pars[v["slice"]]) for k, v in model.config.par_map.items()}}
                if value:
                    out["twice_nll"] = tb.tolist(r[-1])
                return out
            env.judge("fit", args, stdin, lib, outfile=outfile, nondefault=nd, compare=lambda a, b: deep_close(a, b, 1e-6))
    if heavy:
        # optimiser choice and settings must survive the backend switch
        be = rng.choice(["jax", "pytorch", "tensorflow"])
        def lib_minuit():
            w = pyhf.Workspace(ws)
            model = w.model()
            tb = set_lib_backend(be, "minuit", {"tolerance": 0.01})
            r = pyhf.infer.mle.fit(w.data(model), model, return_fitted_val=True)
            return {"mle_parameters": {k: tb.tolist(r[0][v["slice"]]) for k, v in model.config.par_map.items()}, "twice_nll": tb.tolist(r[-1])}
        env.judge("fit", ["fit", wsfile, "--value", "--backend", be, "--optimizer", "minuit", "--optconf", "tolerance=0.01"], None, lib_minuit, nondefault=3, compare=lambda a, b: deep_close(a, b, 1e-6))
        def lib_maxiter():
            w = pyhf.Workspace(ws)
            model = w.model()
            set_lib_backend(be, "scipy", {"maxiter": 1})
            return pyhf.infer.mle.fit(w.data(model), model)
        # (a one-iteration SLSQP fit fails in the library: the command must fail as well)
        env.judge("fit", ["fit", wsfile, "--backend", be, "--optconf", "maxiter=1"], None, lib_maxiter, nondefault=2)
    # failing: unknown measurement
    env.judge("cls", ["cls", wsfile, "--measurement", "no_such_measurement"], None, lambda: lib_model(ws, "no_such_measurement", []))
    env.judge("fit", ["fit", wsfile, "--measurement", "no_such_measurement"], None, lambda: lib_model(ws, "no_such_measurement", []))


def run_inspect(env, rng, ws, wsfile):
    import pyhf

    meas_names = [m["name"] for m in ws["measurements"]]
    measurement = rng.choice(meas_names + [None])

    def lib_json(mname):
        def f():
            w = pyhf.Workspace(ws)
            w.get_measurement(measurement_name=mname)
            model = w.model(measurement_name=mname)
            descr = {"unconstrained": "unconstrained", "constrained_by_normal": "constrained_by_normal", "constrained_by_poisson": "constrained_by_poisson"}
            res = {"samples": w.samples, "channels": [[c, w.channel_nbins[c]] for c in w.channels], "modifiers": dict(w.modifiers)}
            res["parameters"] = sorted([n, descr[type(p["paramset"]).__name__]] for n, p in model.config.par_map.items())
            res["systematics"] = [[p[0], p[1], [m[1] for m in w.modifiers if m[0] == p[0]]] for p in res["parameters"]]
            res["measurements"] = [[m["name"], m["config"]["poi"], [p["name"] for p in m["config"]["parameters"]]] for m in ws["measurements"]]
            return res
        return f

    outfile = env.path(f"inspect_{env.n}.json")
    args = ["inspect", wsfile, "--output-file", outfile] + (["--measurement", measurement] if measurement else [])
    env.judge("inspect", args, None, lib_json(measurement), outfile=outfile, nondefault=2 if measurement else 1)
    # the text summary marks the selected measurement
    code, out, _ = env.invoke(["inspect", wsfile] + (["--measurement", measurement] if measurement else []))
    selected = measurement or meas_names[0]
    marked = [ln.split()[1] for ln in out.splitlines() if ln.strip().startswith("(*)")]
    if code == 0 and marked != [selected]:
        env.shard.violate("C19/inspect-measurement-ignored", f"pyhf inspect --measurement {measurement}: the summary marks {marked} as the selected measurement, the library selects {selected}", {"args": ["inspect", "--measurement", measurement]}, "inspect")
    elif code == 0:
        env.shard.ok("inspect")
        env.shard.covered("options_inspect", "--measurement")
    # failing: unknown measurement must fail like the library
    env.judge("inspect", ["inspect", wsfile, "--measurement", "no_such_measurement"], None, lib_json("no_such_measurement"))


def run_spec_ops(env, rng, ws, wsfile, ws2, ws2file):
    import pyhf

    chans = [c["name"] for c in ws["channels"]]
    samples = sorted({s["name"] for c in ws["channels"] for s in c["samples"]})
    mods = sorted({m["name"] for c in ws["channels"] for s in c["samples"] for m in s["modifiers"]})
    mtypes = sorted({m["type"] for c in ws["channels"] for s in c["samples"] for m in s["modifiers"]})
    meas = [m["name"] for m in ws["measurements"]]
    # prune
    sel = {"channels": [], "samples": [], "modifiers": [], "modifier_types": [], "measurements": []}
    args = ["prune"]
    if len(chans) > 1 and rng.random() < 0.6:
        sel["channels"] = [rng.choice(chans)]
    cand = [m for m in mods if m != "mu"]
    if cand and rng.random() < 0.7:
        sel["modifiers"] = rng.sample(cand, min(len(cand), rng.randint(1, 2)))
    cand = [t for t in mtypes if t not in ("normfactor", "lumi")]
    if cand and rng.random() < 0.4:
        sel["modifier_types"] = [rng.choice(cand)]
    if len(meas) > 1 and rng.random() < 0.4:
        sel["measurements"] = [rng.choice(meas)]
    for k, flag in (("channels", "-c"), ("samples", "-s"), ("modifiers", "-m"), ("modifier_types", "-t"), ("measurements", "--measurement")):
        for v in sel[k]:
            args += [flag, v]
    stdin = json.dumps(ws) if rng.random() < 0.3 else None
    if not stdin:
        args.insert(1, wsfile)
    outfile = env.path(f"prune_{env.n}.json") if rng.random() < 0.5 else None
    if outfile:
        args += ["--output-file", outfile]
    env.judge("prune", args, stdin, lambda: dict(pyhf.Workspace(ws).prune(**sel)), outfile=outfile, nondefault=sum(len(v) for v in sel.values()))
    env.judge("prune", ["prune", wsfile, "-c", "no_such_channel"], None, lambda: pyhf.Workspace(ws).prune(channels=["no_such_channel"]))
    # rename
    maps = {"channels": {}, "samples": {}, "modifiers": {}, "measurements": {}}
    args = ["rename"]
    if rng.random() < 0.7:
        c = rng.choice(chans)
        maps["channels"][c] = "C_" + c
    if rng.random() < 0.6:
        s = rng.choice(samples)
        maps["samples"][s] = s + "_new"
    cand = [m for m in mods if m != "lumi"]
    for m in rng.sample(cand, min(len(cand), rng.randint(0, 2))):
        maps["modifiers"][m] = "ren_" + m
    if rng.random() < 0.5:
        m = rng.choice(meas)
        maps["measurements"][m] = m + "_m"
    for k, flag in (("channels", "-c"), ("samples", "-s"), ("modifiers", "-m"), ("measurements", "--measurement")):
        for a, b in maps[k].items():
            args += [flag, a, b]
    stdin = json.dumps(ws) if rng.random() < 0.3 else None
    if not stdin:
        args.insert(1, wsfile)
    outfile = env.path(f"rename_{env.n}.json") if rng.random() < 0.5 else None
    if outfile:
        args += ["--output-file", outfile]
    env.judge("rename", args, stdin, lambda: dict(pyhf.Workspace(ws).rename(**maps)), outfile=outfile, nondefault=sum(len(v) for v in maps.values()))
    # sort
    outfile = env.path(f"sort_{env.n}.json") if rng.random() < 0.5 else None
    args = ["sort"] + ([wsfile] if rng.random() < 0.7 else []) + (["--output-file", outfile] if outfile else [])
    env.judge("sort", args, None if wsfile in args else json.dumps(ws), lambda: dict(pyhf.Workspace.sorted(pyhf.Workspace(ws))), outfile=outfile)
    # digest
    algs = rng.choice([["sha256"], ["md5"], ["sha256", "md5"], ["md5", "sha1", "sha256"]])
    args = ["digest", wsfile]
    explicit = rng.random() < 0.8 or algs != ["sha256"]
    if explicit:
        for a in algs:
            args += ["-a", a]
    else:
        algs = ["sha256"]
    as_json = rng.random() < 0.5
    args += ["--json" if as_json else "--plaintext"]
    want = {a: pyhf.utils.digest(pyhf.Workspace(ws), algorithm=a) for a in algs}
    if as_json:
        env.judge("digest", args, None, lambda: want, nondefault=len(algs))
    else:
        env.judge("digest", args, None, lambda: want, parse=lambda t: dict(ln.split(":", 1) for ln in t.strip().splitlines()), nondefault=len(algs))
    # combine
    join = rng.choice(["none", "outer", "left outer", "right outer"])
    merge = rng.random() < 0.3
    args = ["combine", wsfile, ws2file, "--join", join] + (["--merge-channels"] if merge else [])
    outfile = env.path(f"combine_{env.n}.json") if rng.random() < 0.5 else None
    if outfile:
        args += ["--output-file", outfile]
    env.judge("combine", args, None, lambda: dict(pyhf.Workspace.combine(pyhf.Workspace(ws), pyhf.Workspace(ws2), join=join, merge_channels=merge)), outfile=outfile, nondefault=1 + merge)
    # combine with itself under 'none' must fail like the library
    env.judge("combine", ["combine", wsfile, wsfile], None, lambda: pyhf.Workspace.combine(pyhf.Workspace(ws), pyhf.Workspace(ws), join="none"))


def run_patchset(env, rng, ws, wsfile):
    import pyhf

    doc, kinds = c17.gen_patchset(rng, ws)
    # one more patch whose result is NOT a valid workspace (a sample name that is a number): the library refuses to
    # return it, so must the command line
    nlab = len(doc["metadata"]["labels"])
    doc["patches"].append({"metadata": {"name": "breaks_the_schema", "values": [-999.5] * nlab},
                           "patch": [{"op": "replace", "path": "/channels/0/samples/0/name", "value": 123}]})
    psfile = env.write(f"ps_{env.n}.json", doc)
    names = [p["metadata"]["name"] for p in doc["patches"]]
    name = rng.choice(names[:-1])
    withmd = rng.random() < 0.5
    outfile = env.path(f"extract_{env.n}.json") if rng.random() < 0.5 else None
    args = ["patchset", "extract", psfile, "--name", name] + (["--with-metadata"] if withmd else []) + (["--output-file", outfile] if outfile else [])

    def lib_extract():
        ps = pyhf.PatchSet(copy.deepcopy(doc))
        p = ps[name]
        if withmd:
            r = {"metadata": dict(p.metadata), "patch": p.patch}
            r["metadata"].update(ps.metadata)
            return r
        return p.patch
    env.judge("patchset", args, None, lib_extract, outfile=outfile, nondefault=1 + withmd)
    env.judge("patchset", ["patchset", "extract", psfile, "--name", "no_such_patch"], None, lambda: pyhf.PatchSet(copy.deepcopy(doc))["no_such_patch"])
    outfile = env.path(f"apply_{env.n}.json") if rng.random() < 0.5 else None
    args = ["patchset", "apply", wsfile, psfile, "--name", name] + (["--output-file", outfile] if outfile else [])
    env.judge("patchset", args, None, lambda: dict(pyhf.PatchSet(copy.deepcopy(doc)).apply(pyhf.Workspace(ws), name)), outfile=outfile, nondefault=1)
    bfile = env.path(f"apply_broken_{env.n}.json") if rng.random() < 0.5 else None
    env.judge("patchset", ["patchset", "apply", wsfile, psfile, "--name", "breaks_the_schema"] + (["--output-file", bfile] if bfile else []), None,
              lambda: dict(pyhf.PatchSet(copy.deepcopy(doc)).apply(pyhf.Workspace(ws), "breaks_the_schema")), outfile=bfile)
    env.judge("patchset", ["patchset", "verify", wsfile, psfile], None, lambda: (pyhf.PatchSet(copy.deepcopy(doc)).verify(pyhf.Workspace(ws)), "All good.")[1], parse=lambda t: t.strip(), text=True, compare=lambda a, b: a == b)
    bad = copy.deepcopy(ws)
    bad["channels"][0]["samples"][0]["data"][0] += 1.0
    badfile = env.write(f"bad_{env.n}.json", bad)
    env.judge("patchset", ["patchset", "verify", badfile, psfile], None, lambda: pyhf.PatchSet(copy.deepcopy(doc)).verify(pyhf.Workspace(bad)))
    env.judge("patchset", ["patchset", "apply", badfile, psfile, "--name", name], None, lambda: pyhf.PatchSet(copy.deepcopy(doc)).apply(pyhf.Workspace(bad), name))
    code, out, _ = env.invoke(["patchset", "inspect", psfile])
    listed = [ln.strip() for ln in out.splitlines() if ln.strip() and "patches found" not in ln and not set(ln.strip()) <= {"-"}]
    if code != 0 or listed != names or f"{len(names)} patch" not in out:
        env.shard.violate("C19/patchset-inspect", f"patchset inspect lists {listed} (exit {code}); the patch set holds {names}", {"args": ["patchset", "inspect"]}, "patchset")
    else:
        env.shard.ok("patchset")


def run_rootio(env, rng):
    import pyhf
    from pyhf import readxml, writexml

    ws = c18.gen_exportable(rng)
    wsfile = env.write(f"exp_{env.n}.json", ws)
    out1 = env.path(f"xml_cli_{env.n}")
    out2 = env.path(f"xml_lib_{env.n}")
    os.makedirs(out1)
    os.makedirs(out2)
    prefix = rng.choice(["FitConfig", "Cfg_2"])
    specroot = rng.choice(["config", "cfgdir"])
    dataroot = rng.choice(["data", "hists"])
    # zero, one or two patch files; two patches touch different places so that both matter
    npatch = rng.choice([0, 1, 2, 2])
    patches = []
    cells = [(ci, si) for ci, c in enumerate(ws["channels"]) for si, s in enumerate(c["samples"])]
    rng.shuffle(cells)
    for ci, si in cells[:npatch]:
        data = ws["channels"][ci]["samples"][si]["data"]
        patches.append([{"op": "replace", "path": f"/channels/{ci}/samples/{si}/data", "value": [gen._round(v * 1.25 + 0.5, 3) for v in data]}])
    patched = copy.deepcopy(ws)
    for pt in patches:
        patched = c17.ref_apply(patched, pt)
    # keep bin-wise modifier data consistent with the new yields (shapesys/staterror are relative in XML)
    pfiles = [env.write(f"jpatch_{env.n}_{i}.json", pt) for i, pt in enumerate(patches)]
    args = ["json2xml", wsfile, "--output-dir", out1, "--resultprefix", prefix, "--specroot", specroot, "--dataroot", dataroot]
    for pf in pfiles:
        args += ["-p", pf]
    code, out, res = env.invoke(args)
    if code != 0:
        env.shard.violate("C19/exit-status:rootio", f"json2xml failed: {type(res.exception).__name__}: {str(res.exception)[:200]}", {"args": ["json2xml"]}, "rootio")
        return
    top = os.path.join(out1, f"{prefix}.xml")
    code2, out_json, res2 = env.invoke(["xml2json", top, "--basedir", out1, "--hide-progress"])
    outfile = env.path(f"x2j_{env.n}.json")
    code3, _, _ = env.invoke(["xml2json", top, "--basedir", out1, "--hide-progress", "--output-file", outfile])
    # library path
    os.makedirs(os.path.join(out2, specroot))
    os.makedirs(os.path.join(out2, dataroot))
    xml = writexml.writexml(copy.deepcopy(patched), os.path.join(out2, specroot), os.path.join(out2, dataroot), prefix)
    top2 = os.path.join(out2, f"{prefix}.xml")
    with open(top2, "wb") as f:
        f.write(xml)
    lib = readxml.parse(top2, out2)
    case = {"args": args[:1] + ["..."], "ws": ws}
    if code2 != 0 or code3 != 0:
        env.shard.violate("C19/exit-status:rootio", f"xml2json failed: {type(res2.exception).__name__ if res2.exception else code2}", case, "rootio")
        return
    got = json.loads(out_json)
    with open(outfile) as f:
        got_file = json.load(f)
    with open(top) as f1, open(top2) as f2:
        x1, x2 = f1.read().replace(out1, "<D>"), f2.read().replace(out2, "<D>")
    probs = []
    if not deep_close(got, json.loads(json.dumps(lib))):
        probs.append("xml2json output differs from readxml.parse on the library-written files")
    if got != got_file:
        probs.append("xml2json --output-file differs from stdout")
    if x1 != x2:
        probs.append("top-level XML written by json2xml differs from writexml")
    if c18.structural_problems(patched, got):
        probs.append("CLI round trip changed the (patched) workspace: " + "; ".join(c18.structural_problems(patched, got))[:200])
    if probs:
        env.shard.violate("C19/rootio-differs", "; ".join(probs), case, "rootio")
    else:
        env.shard.ok("rootio")
        env.shard.ok("file_equals_stdout")
        env.shard.nontrivial("rootio", prefix, specroot, dataroot, [c["name"] for c in ws["channels"]])
        if pfiles:
            env.shard.covered("options_rootio", f"-p x{len(pfiles)}")
        for a in ("--output-dir", "--resultprefix", "--specroot", "--dataroot", "--basedir", "--output-file"):
            env.shard.covered("options_rootio", a)


def run_subprocess_checks(env, rng, ws, wsfile):
    """Real processes: stdin -> stdout, and file output == stdout."""
    import pyhf

    envv = dict(os.environ)
    # the console-script entry point, as a real process (pyhf.cli has no __main__)
    base = [sys.executable, "-W", "ignore", "-c", "import sys; from pyhf.cli.cli import pyhf; sys.exit(pyhf())"]
    p1 = subprocess.run(base + ["sort"], input=json.dumps(ws), capture_output=True, text=True, timeout=300, env=envv)
    outfile = env.path("sub_sort.json")
    p2 = subprocess.run(base + ["sort", wsfile, "--output-file", outfile], capture_output=True, text=True, timeout=300, env=envv)
    want = dict(pyhf.Workspace.sorted(pyhf.Workspace(ws)))
    case = {"args": ["pyhf sort as a real process (stdin / --output-file)"]}
    try:
        a = json.loads(p1.stdout)
        with open(outfile) as f:
            b = json.load(f)
        if p1.returncode != 0 or p2.returncode != 0 or a != want or b != want:
            env.shard.violate("C19/subprocess-sort", f"real process: exit {p1.returncode}/{p2.returncode}, stdin->stdout equals library: {a == want}, file equals library: {b == want}", case, "file_equals_stdout")
        else:
            env.shard.ok("file_equals_stdout")
            env.shard.nontrivial("subprocess", "sort", "stdin", "file")
            env.shard.covered("real_subprocess", "sort via stdin and via --output-file")
    except Exception as e:
        env.shard.violate("C19/subprocess-sort", f"real process output unusable: {type(e).__name__}; stderr {p1.stderr[-200:]}", case, "file_equals_stdout")
    p3 = subprocess.run(base + ["cls", "--test-poi", "1.5", "--measurement", ws["measurements"][-1]["name"]], input=json.dumps(ws), capture_output=True, text=True, timeout=600, env=envv)
    ok, val = env.library(lambda: (lambda w, m: pyhf.infer.hypotest(1.5, w.data(m), m, return_expected_set=True))(*lib_model(ws, ws["measurements"][-1]["name"], [])))
    if ok:
        want = {"CLs_obs": float(to_np(val[0])), "CLs_exp": [float(to_np(x)) for x in val[1]]}
        try:
            got = json.loads(p3.stdout)
            if p3.returncode != 0 or not deep_close(got, want, 1e-7):
                env.shard.violate("C19/subprocess-cls", f"real process cls gives {got}, library {want}", {"args": ["pyhf cls as a real process (stdin)"]}, "cls")
            else:
                env.shard.ok("cls")
                env.shard.covered("real_subprocess", "cls via stdin")
        except Exception as e:
            env.shard.violate("C19/subprocess-cls", f"real process cls output unusable (exit {p3.returncode}): {p3.stderr[-200:]}", {"args": ["pyhf cls as a real process (stdin)"]}, "cls")


def one_round(seed, shard, heavy, do_sub, do_toys):
    import pyhf

    rng = random.Random(seed)
    root = tempfile.mkdtemp(prefix="c19-", dir=os.path.join(VERIF, ".work"))
    env = Env(shard, root)
    try:
        while True:
            ws, info = gen.gen_workspace(rng, max_channels=2, max_samples=3, max_bins=3, n_measurements=rng.randint(2, 3), profile="wellposed",
                                         types=["normfactor", "normsys", "histosys", "shapesys", "staterror", "lumi"])
            break
        ws2, _ = gen.gen_workspace(rng, max_channels=2, max_samples=2, max_bins=2, n_measurements=1, profile="wellposed", types=["normfactor", "normsys", "lumi"])
        ws2 = __import__("pyhfmon.props.c16", fromlist=["x"]).ref_rename(ws2, channels={c["name"]: c["name"] + "_R" for c in ws2["channels"]}, measurements={m["name"]: m["name"] + "_R" for m in ws2["measurements"]})
        # lumi settings must agree when both use lumi: drop lumi from the second one
        for c in ws2["channels"]:
            for s in c["samples"]:
                s["modifiers"] = [m for m in s["modifiers"] if m["type"] != "lumi"]
        for m in ws2["measurements"]:
            m["config"]["parameters"] = [p for p in m["config"]["parameters"] if p["name"] != "lumi"]
        if rng.random() < 0.35:
            # names outside ASCII (a channel, a background sample, a systematic): every subcommand must treat them as the library does
            c16 = __import__("pyhfmon.props.c16", fromlist=["x"])
            chn = rng.choice([c["name"] for c in ws["channels"]])
            smp = sorted({s_["name"] for c in ws["channels"] for s_ in c["samples"] if s_["name"] != "signal"})
            mod = sorted({m["name"] for c in ws["channels"] for s_ in c["samples"] for m in s_["modifiers"] if m["type"] in ("normsys", "histosys")})
            ws = c16.ref_rename(ws, channels={chn: chn + "_μμ"}, samples=({(s0 := rng.choice(smp)): "t̄t_" + s0} if smp else {}),
                                modifiers=({(m0 := rng.choice(mod)): "α_" + m0} if mod else {}))
            shard.covered("names", "non-ASCII channel / sample / modifier names")
        wsfile = env.write("ws.json", ws)
        ws2file = env.write("ws2.json", ws2)
        # patch files: change a signal yield / observation
        patches = []
        for k in range(2):
            ci = rng.randrange(len(ws["channels"]))
            si = next(i for i, s in enumerate(ws["channels"][ci]["samples"]) if s["name"] == "signal")
            nb = len(ws["channels"][ci]["samples"][si]["data"])
            patches.append([{"op": "replace", "path": f"/channels/{ci}/samples/{si}/data", "value": [gen._round(rng.uniform(2, 30), 2) for _ in range(nb)]}])
        patchfiles = [env.write(f"patch{k}.json", p) for k, p in enumerate(patches)]
        run_infer(env, rng, ws, wsfile, patchfiles, patches, heavy)
        # q and qtilde only differ when the data show a deficit: a differential pair on such a workspace
        import pyhf
        wdef = copy.deepcopy(ws)
        for o in wdef["observations"]:
            o["data"] = [float(int(0.55 * v)) for v in o["data"]]
        deffile = env.write("ws_deficit.json", wdef)
        for ts in ("q", "qtilde"):
            def lib(ts=ts):
                w, model = lib_model(wdef, None, [])
                r = pyhf.infer.hypotest(1.0, w.data(model), model, test_stat=ts, return_expected_set=True)
                return {"CLs_obs": float(to_np(r[0])), "CLs_exp": [float(to_np(t)) for t in r[-1]]}
            env.judge("cls", ["cls", deffile, "--test-stat", ts], None, lib, nondefault=2, compare=lambda a, b: deep_close(a, b, 1e-7))
        run_inspect(env, rng, ws, wsfile)
        run_spec_ops(env, rng, ws, wsfile, ws2, ws2file)
        run_patchset(env, rng, ws, wsfile)
        run_rootio(env, rng)
        if do_sub:
            run_subprocess_checks(env, rng, ws, wsfile)
        if do_toys:
            tiny = {"channels": [{"name": "c", "samples": [{"name": "signal", "data": [6.0], "modifiers": [{"name": "mu", "type": "normfactor", "data": None}]},
                                                              {"name": "bkg", "data": [20.0], "modifiers": []}]}],
                    "observations": [{"name": "c", "data": [24.0]}], "measurements": [{"name": "m", "config": {"poi": "mu", "parameters": []}}], "version": "1.0.0"}
            tf = env.write("tiny.json", tiny)
            code, out, res = env.invoke(["cls", tf, "--calctype", "toybased", "--test-poi", "2.0"])
            try:
                r = json.loads(out)
                ok = code == 0 and 0 <= r["CLs_obs"] <= 1 and len(r["CLs_exp"]) == 5
            except Exception:
                ok = False
            if not ok:
                shard.violate("C19/cls-toybased", f"cls --calctype toybased: exit {code}, output {out[:200]!r}, exception {res.exception!r}", {"args": ["cls", "--calctype", "toybased"]}, "cls")
            else:
                shard.ok("cls")
                shard.covered("options_cls", "--calctype toybased")
    finally:
        shutil.rmtree(root, ignore_errors=True)


def plan(tier, seed):
    n = 2 if tier == "quick" else 40
    return [{"n": n, "seed": seed * 295075147 + i * 1000, "heavy": i % 4 == 0, "sub": i in (1, 5), "toys": i == 2} for i in range(16)]


def run_shard(shard):
    import logging
    logging.disable(logging.CRITICAL)
    import warnings
    warnings.simplefilter("ignore")
    os.makedirs(os.path.join(VERIF, ".work"), exist_ok=True)
    p = shard.params
    for k in range(p["n"]):
        one_round(p["seed"] + k, shard, p["heavy"], p["sub"] and k == 0, p["toys"] and k == 0)
    if shard.index == 0:
        shard.sample({"invocation": "pyhf cls ws.json --measurement alt -p patch0.json --test-poi 2.0 --test-stat q --output-file out.json", "oracle": "hypotest(2.0, ws.data(model), model, test_stat='q', return_expected_set=True) on ws.model(measurement_name='alt', patches=[patch0])"})


def replay(rec, shard):
    print("C19 witnesses are regenerated from the seed of the round; stored invocation:", rec.get("case"))
