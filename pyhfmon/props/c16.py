"""C16 — workspace combine, prune, rename and sort act on the likelihood as advertised.

Monitor on Workspace.combine / prune / rename / sorted.  Oracles: reference set-algebra on the raw
dicts (union / filter / relabel / sort) and likelihood identities evaluated through
Workspace.model().mainlogpdf / constraint_logpdf / logpdf with parameters identified by name.
"""
import copy
import math
import random

from .. import gen
from .c03 import to_np
from .c12 import permute_workspace

LEVEL = "exploration"
RULE = (
    "Pairs of generated workspaces (disjoint channels with shared and private parameter names; overlapping-identical; "
    "overlapping-conflicting channels/observations/measurements/versions) x four join modes x merge flag; prune selections "
    "(modifiers, modifier types, samples, channels, measurements), rename maps with their inverses, sorting of permuted "
    "copies. A case = one operation on one pair/workspace; non-trivial when the pair shares >=1 parameter name and each side "
    "has a private one, or the prune/rename selection is non-empty and leaves >=1 channel; distinct by (operation, join, shapes, selection)."
)
ASSUMPTIONS = [
    "dict comparisons exact; likelihood identities 1e-9 relative (parameters mapped by name)",
    "only advertised refusals are demanded (join='none' with common names; 'outer' with same-name-different-content items, POIs or parameter configs; differing versions; invalid join string; merge_channels with join='none'); what merge_channels does with clashing sample definitions is unjudged",
    "for the documented-unsafe left/right outer joins the check is that the primary side wins",
]
REQUIRED = ("combine_content", "combine_factorisation", "combine_refusal", "prune", "rename", "sorted", "inputs_untouched")


# ------------------------------------------------------------------ reference algebra on raw dicts
def ref_rename(ws, modifiers=None, samples=None, channels=None, measurements=None):
    modifiers, samples, channels, measurements = modifiers or {}, samples or {}, channels or {}, measurements or {}
    w = copy.deepcopy(ws)
    for c in w["channels"]:
        c["name"] = channels.get(c["name"], c["name"])
        for s in c["samples"]:
            s["name"] = samples.get(s["name"], s["name"])
            for m in s["modifiers"]:
                m["name"] = modifiers.get(m["name"], m["name"])
    for o in w["observations"]:
        o["name"] = channels.get(o["name"], o["name"])
    for m in w["measurements"]:
        m["name"] = measurements.get(m["name"], m["name"])
        m["config"]["poi"] = modifiers.get(m["config"]["poi"], m["config"]["poi"])
        for p in m["config"]["parameters"]:
            p["name"] = modifiers.get(p["name"], p["name"])
    return w


def ref_prune(ws, modifiers=(), modifier_types=(), samples=(), channels=(), measurements=()):
    w = copy.deepcopy(ws)
    w["channels"] = [c for c in w["channels"] if c["name"] not in channels]
    for c in w["channels"]:
        c["samples"] = [s for s in c["samples"] if s["name"] not in samples]
        for s in c["samples"]:
            s["modifiers"] = [m for m in s["modifiers"] if m["name"] not in modifiers and m["type"] not in modifier_types]
    w["observations"] = [o for o in w["observations"] if o["name"] not in channels]
    w["measurements"] = [m for m in w["measurements"] if m["name"] not in measurements]
    for m in w["measurements"]:
        m["config"]["parameters"] = [p for p in m["config"]["parameters"] if p["name"] not in modifiers]
    return w


def ref_sorted(ws):
    w = copy.deepcopy(ws)
    w["channels"].sort(key=lambda c: c["name"])
    for c in w["channels"]:
        c["samples"].sort(key=lambda s: s["name"])
        for s in c["samples"]:
            s["modifiers"].sort(key=lambda m: (m["name"], m["type"]))
    w["observations"].sort(key=lambda o: o["name"])
    w["measurements"].sort(key=lambda m: m["name"])
    for m in w["measurements"]:
        m["config"]["parameters"].sort(key=lambda p: p["name"])
    return w


def as_key(x):
    import json
    return json.dumps(x, sort_keys=True)


def same_items(a, b):
    return sorted(as_key(x) for x in a) == sorted(as_key(x) for x in b)


# ------------------------------------------------------------------ helpers
def pars_by_name(model, rng, values=None):
    """A parameter point as {name: [components]} inside the suggested bounds."""
    cfg = model.config
    out = {}
    for n in cfg.par_order:
        sl = cfg.par_slice(n)
        b = cfg.suggested_bounds()[sl]
        if values and n in values and len(values[n]) == len(b):
            out[n] = values[n]
            continue
        out[n] = [min(max(rng.uniform(0.6, 1.3) if lo >= 0 else rng.uniform(-0.8, 0.8), lo), hi) for lo, hi in b]
    return out


def vec(model, byname):
    v = []
    for n in model.config.par_order:
        v += list(byname[n])
    return v


def main_and_constraint(model, byname, obs, auxname):
    import pyhf

    tb = pyhf.tensorlib
    cfg = model.config
    pars = tb.astensor(vec(model, byname))
    main = [x for c in cfg.channels for x in obs[c]]
    ml = float(to_np(model.mainlogpdf(tb.astensor(main), pars)).reshape(-1)[0])
    aux = []
    for n in cfg.auxdata_order:
        aux += list(auxname[n])
    cl = float(to_np(model.constraint_logpdf(tb.astensor(aux), pars)).reshape(-1)[0]) if aux else 0.0
    full = float(to_np(model.logpdf(vec(model, byname), main + aux)).reshape(-1)[0])
    return ml, cl, full


def aux_by_name(model, rng, values=None):
    cfg = model.config
    out = {}
    for n in cfg.auxdata_order:
        ps = cfg.param_set(n)
        if values and n in values and len(values[n]) == ps.n_parameters:
            out[n] = values[n]
        else:
            out[n] = [float(a) * (1 + 0.03 * rng.uniform(-1, 1)) + (0.04 * rng.uniform(-1, 1) if ps.pdf_type == "normal" else 0.0) for a in ps.auxdata]
    return out


def make_pair(rng):
    """Two valid workspaces with disjoint channels; some parameter names shared, some private."""
    left, linfo = gen.gen_workspace(rng, max_channels=2, max_samples=3, max_bins=3, n_measurements=rng.randint(1, 2))
    right, rinfo = gen.gen_workspace(rng, max_channels=2, max_samples=3, max_bins=3, n_measurements=rng.randint(1, 2))
    cmap = {c["name"]: c["name"] + "_R" for c in right["channels"]}
    mods = sorted({m["name"] for c in right["channels"] for s in c["samples"] for m in s["modifiers"]})
    mmap = {}
    for n in mods:
        if n.startswith("staterror_") or n.startswith("shape_") or n.startswith("sf_") or n == "stat_x":
            mmap[n] = n + "_R"
        elif n not in ("mu", "lumi") and rng.random() < 0.5:
            mmap[n] = n + "_R"
    right = ref_rename(right, modifiers=mmap, channels=cmap)
    # a shared name must mean the same kind of parameter on both sides
    ltypes, rtypes = {}, {}
    for ws, acc in ((left, ltypes), (right, rtypes)):
        for c in ws["channels"]:
            for s in c["samples"]:
                for m in s["modifiers"]:
                    acc.setdefault(m["name"], set()).add("alpha" if m["type"] in ("normsys", "histosys") else m["type"])
    clash = {n: n + "_R2" for n in rtypes if n in ltypes and ltypes[n] != rtypes[n]}
    if clash:
        right = ref_rename(right, modifiers=clash)
    # measurement-level settings (inits, bounds) for a random half of the scalar parameters, drawn separately for every
    # measurement of either side, so that the measurements of one workspace differ and a same-named measurement carries
    # different parameter lists on the two sides
    for ws in (left, right):
        kinds = {}
        for c in ws["channels"]:
            for s in c["samples"]:
                for m in s["modifiers"]:
                    if m["type"] in ("normsys", "histosys", "normfactor") and m["name"] != "mu":
                        kinds.setdefault(m["name"], set()).add("alpha" if m["type"] != "normfactor" else "norm")
        for mm in ws["measurements"]:
            have = {p["name"] for p in mm["config"]["parameters"]}
            for n, k in sorted(kinds.items()):
                if n in have or len(k) != 1 or rng.random() < 0.5:
                    continue
                if k == {"alpha"}:
                    mm["config"]["parameters"].append({"name": n, "inits": [gen._round(rng.uniform(-0.8, 0.8), 3)], "bounds": [[gen._round(rng.uniform(-7, -3), 2), gen._round(rng.uniform(3, 7), 2)]]})
                else:
                    mm["config"]["parameters"].append({"name": n, "inits": [gen._round(rng.uniform(0.3, 2.0), 3)], "bounds": [[gen._round(rng.uniform(0.0, 0.2), 2), gen._round(rng.uniform(4, 12), 2)]]})
    # identical parameter configs for common names in common measurements
    lpars = {m["name"]: {p["name"]: p for p in m["config"]["parameters"]} for m in left["measurements"]}
    for m in right["measurements"]:
        if m["name"] in lpars:
            new = []
            for p in m["config"]["parameters"]:
                new.append(copy.deepcopy(lpars[m["name"]].get(p["name"], p)))
            m["config"]["parameters"] = new
    # lumi needs settings wherever it is used: copy them across measurements when missing
    for a, b in ((left, right), (right, left)):
        uses = any(m["type"] == "lumi" for c in a["channels"] for s in c["samples"] for m in s["modifiers"])
        if uses:
            cfg = next(p for mm in a["measurements"] for p in mm["config"]["parameters"] if p["name"] == "lumi")
            for mm in b["measurements"]:
                if not any(p["name"] == "lumi" for p in mm["config"]["parameters"]):
                    mm["config"]["parameters"].append(copy.deepcopy(cfg))
                else:
                    for i, p in enumerate(mm["config"]["parameters"]):
                        if p["name"] == "lumi":
                            mm["config"]["parameters"][i] = copy.deepcopy(cfg)
            for mm in a["measurements"]:
                for i, p in enumerate(mm["config"]["parameters"]):
                    if p["name"] == "lumi":
                        mm["config"]["parameters"][i] = copy.deepcopy(cfg)
    return left, right


def check_combine(seed, shard):
    import pyhf
    from pyhf import exceptions as E

    rng = random.Random(seed)
    left, right = make_pair(rng)
    l0, r0 = copy.deepcopy(left), copy.deepcopy(right)
    case = {"op": "combine", "seed": seed, "left": left, "right": right}
    L, R = pyhf.Workspace(left), pyhf.Workspace(right)
    common_meas = {m["name"] for m in left["measurements"]} & {m["name"] for m in right["measurements"]}
    for join in ("none", "outer", "left outer", "right outer"):
        c = dict(case, join=join)
        if join == "none" and common_meas:
            try:
                pyhf.Workspace.combine(L, R, join=join)
                shard.violate("C16/combine-none-accepts-common-measurement", f"join='none' accepted common measurement names {sorted(common_meas)}", c, "combine_refusal")
            except E.InvalidWorkspaceOperation:
                shard.ok("combine_refusal")
            except Exception as e:
                shard.violate("C16/combine-wrong-exception", f"{type(e).__name__}: {str(e)[:150]}", c, "combine_refusal")
            rr = ref_rename(right, measurements={n: n + "_R" for n in common_meas})
            Rj = pyhf.Workspace(rr)
        else:
            rr, Rj = right, R
        try:
            comb = pyhf.Workspace.combine(L, Rj, join=join)
        except Exception as e:
            shard.violate("C16/combine-raised", f"combine(join={join}) of disjoint-channel workspaces raised {type(e).__name__}: {str(e)[:200]}", c, "combine_content")
            continue
        cd = dict(comb)
        probs = []
        if not same_items(cd["channels"], left["channels"] + rr["channels"]):
            probs.append("channels are not the union of both inputs, unchanged")
        if not same_items(cd["observations"], left["observations"] + rr["observations"]):
            probs.append("observations are not the union of both inputs, unchanged")
        lm = {m["name"]: m for m in left["measurements"]}
        rm = {m["name"]: m for m in rr["measurements"]}
        got_m = {m["name"]: m for m in cd["measurements"]}
        if set(got_m) != set(lm) | set(rm) or len(cd["measurements"]) != len(got_m):
            probs.append(f"measurement names {sorted(got_m)} != union {sorted(set(lm) | set(rm))}")
        else:
            for n, m in got_m.items():
                if n in lm and n in rm:
                    want = {p["name"]: p for p in lm[n]["config"]["parameters"]}
                    for p in rm[n]["config"]["parameters"]:
                        want.setdefault(p["name"], p)
                    if join == "right outer":
                        want = {p["name"]: p for p in rm[n]["config"]["parameters"]} if False else want
                    if join == "outer" and (m["config"]["poi"] != lm[n]["config"]["poi"] or not same_items(m["config"]["parameters"], list(want.values()))):
                        probs.append(f"merged measurement {n} is not the union of the parameter configs")
                    if join in ("left outer", "right outer"):
                        prim = lm[n] if join == "left outer" else rm[n]
                        if as_key(m) != as_key(prim):
                            probs.append(f"{join}: measurement {n} is not the primary side's")
                elif as_key(m) != as_key(lm.get(n, rm.get(n))):
                    probs.append(f"measurement {n} changed")
        try:
            pyhf.schema.validate(cd, "workspace.json")
        except Exception as e:
            probs.append(f"result not schema-valid: {str(e)[:100]}")
        if probs:
            shard.violate(f"C16/combine-content:{join}", "; ".join(probs), c, "combine_content")
        else:
            shard.ok("combine_content")
        if left != l0 or right != r0 or dict(L) != l0:
            shard.violate("C16/combine-mutates-input", f"combine(join={join}) modified an input", c, "inputs_untouched")
        else:
            shard.ok("inputs_untouched")
        # ---- likelihood factorisation, per measurement present on both sides (or any, using each side's own)
        for mname in sorted(got_m):
            if not (mname in lm and mname in rm) and join != "none":
                continue
            if join == "none":
                # measurements are not merged: a combined measurement only configures its own side's parameters
                continue
            if join in ("left outer", "right outer"):
                continue  # documented-unsafe: the primary side's configs only
            try:
                mc = comb.model(measurement_name=mname)
                ml_, mr_ = L.model(measurement_name=mname), Rj.model(measurement_name=mname)
            except Exception as e:
                shard.violate("C16/combined-model-raised", f"model({mname}) raised {type(e).__name__}: {str(e)[:200]} after join={join}", c, "combine_factorisation")
                continue
            pc = pars_by_name(mc, rng)
            ac = aux_by_name(mc, rng)
            obs = {o["name"]: o["data"] for o in cd["observations"]}
            try:
                mlc, clc, fullc = main_and_constraint(mc, pc, obs, ac)
                mll, cll, fulll = main_and_constraint(ml_, {n: pc[n] for n in ml_.config.par_order}, obs, {n: ac[n] for n in ml_.config.auxdata_order})
                mlr, clr, fullr = main_and_constraint(mr_, {n: pc[n] for n in mr_.config.par_order}, obs, {n: ac[n] for n in mr_.config.auxdata_order})
            except KeyError as e:
                shard.violate("C16/combined-parameters", f"a parameter of an input is missing from the combined model: {e}", c, "combine_factorisation")
                continue
            if not all(math.isfinite(v) for v in (mlc, mll, mlr)):
                shard.skip("non-finite log-density at the random point")
                continue
            fprobs = []
            if not abs(mlc - (mll + mlr)) <= 1e-9 * (abs(mll) + abs(mlr) + 1):
                fprobs.append(f"mainlogpdf(combined)={mlc!r} != {mll!r} + {mlr!r}")
            union = list(dict.fromkeys(list(ml_.config.auxdata_order) + list(mr_.config.auxdata_order)))
            if sorted(mc.config.auxdata_order) != sorted(union) or len(mc.config.auxdata_order) != len(set(mc.config.auxdata_order)):
                fprobs.append(f"constrained sets {sorted(mc.config.auxdata_order)} != union {sorted(union)} (each once)")
            else:
                shared = [n for n in ml_.config.auxdata_order if n in mr_.config.auxdata_order]
                sterm = 0.0
                ok_shared = True
                for n in shared:
                    ps = mc.config.param_set(n)
                    if ps.pdf_type != "normal" or ps.n_parameters != 1:
                        ok_shared = False
                        break
                    sg = ps.width()[0]
                    z = (ac[n][0] - pc[n][0]) / sg
                    sterm += -0.5 * z * z - math.log(sg) - 0.5 * math.log(2 * math.pi)
                if ok_shared and not abs(clc - (cll + clr - sterm)) <= 1e-9 * (abs(cll) + abs(clr) + abs(sterm) + 1):
                    fprobs.append(f"constraint(combined)={clc!r} != {cll!r} + {clr!r} - shared {sterm!r}")
            if fprobs:
                shard.violate(f"C16/combine-factorisation:{join}", "; ".join(fprobs) + f" (measurement {mname})", c, "combine_factorisation")
            else:
                shard.ok("combine_factorisation")
                lp, rp = set(ml_.config.par_order), set(mr_.config.par_order)
                if (lp & rp) and (lp - rp) and (rp - lp):
                    shard.nontrivial("combine", join, sorted(lp & rp), len(lp - rp), len(rp - lp), mname)
        # the combined workspace shares nothing with its inputs: the caller edits every leaf of it in place
        from .c17 import scramble
        rj0 = copy.deepcopy(dict(Rj))
        scramble(comb)
        if dict(L) != l0 or dict(Rj) != rj0 or comb is L or comb is Rj:
            shard.violate("C16/result-aliases-input", f"combine(join={join}): editing the result in place changed an input workspace", c, "inputs_untouched")
            L, R = pyhf.Workspace(copy.deepcopy(l0)), pyhf.Workspace(copy.deepcopy(r0))
        else:
            shard.ok("inputs_untouched")
            shard.covered("aliasing_checked_after", f"combine/{join}")
        shard.covered("joins", join)


def check_conflicts(seed, shard):
    """Advertised refusals."""
    import pyhf
    from pyhf import exceptions as E

    rng = random.Random(seed)
    left, right = make_pair(rng)
    L = pyhf.Workspace(left)
    case = {"op": "conflict", "seed": seed, "left": left, "right": right}

    def expect(label, fn, exc):
        try:
            fn()
        except exc:
            shard.ok("combine_refusal")
            shard.covered("refusals", label)
            return
        except Exception as e:
            shard.violate("C16/combine-wrong-exception", f"{label}: {type(e).__name__}: {str(e)[:150]}", dict(case, conflict=label), "combine_refusal")
            return
        shard.violate(f"C16/conflict-accepted:{label}", f"{label}: combine returned instead of refusing", dict(case, conflict=label), "combine_refusal")

    # overlapping channel with different content
    r2 = copy.deepcopy(right)
    clash = copy.deepcopy(left["channels"][0])
    clash["samples"][0]["data"] = [v + 1.0 for v in clash["samples"][0]["data"]]
    r2["channels"].append(clash)
    r2["observations"].append(copy.deepcopy(next(o for o in left["observations"] if o["name"] == clash["name"])))
    expect("none/common-channel", lambda: pyhf.Workspace.combine(L, pyhf.Workspace(r2), join="none"), E.InvalidWorkspaceOperation)
    r2m = ref_rename(r2, measurements={m["name"]: m["name"] + "_x" for m in r2["measurements"]})
    expect("none/common-channel(distinct measurements)", lambda: pyhf.Workspace.combine(L, pyhf.Workspace(r2m), join="none"), E.InvalidWorkspaceOperation)
    expect("outer/clashing-channel", lambda: pyhf.Workspace.combine(L, pyhf.Workspace(r2), join="outer"), E.InvalidWorkspaceOperation)
    # identical overlapping channel is fine under outer, refused under none
    r3 = copy.deepcopy(right)
    r3["channels"].append(copy.deepcopy(left["channels"][0]))
    r3["observations"].append(copy.deepcopy(next(o for o in left["observations"] if o["name"] == left["channels"][0]["name"])))
    r3n = ref_rename(r3, measurements={m["name"]: m["name"] + "_x" for m in r3["measurements"]})
    expect("none/identical-common-channel", lambda: pyhf.Workspace.combine(L, pyhf.Workspace(r3n), join="none"), E.InvalidWorkspaceOperation)
    try:
        comb = pyhf.Workspace.combine(L, pyhf.Workspace(r3), join="outer")
        names = [c["name"] for c in comb["channels"]]
        if len(names) != len(set(names)) or not same_items(comb["channels"], left["channels"] + right["channels"]):
            shard.violate("C16/outer-identical-overlap", "outer join of an identical overlapping channel did not deduplicate it", case, "combine_content")
        else:
            shard.ok("combine_content")
            shard.covered("overlap", "identical channel deduplicated under outer")
    except E.InvalidWorkspaceOperation:
        # same measurement with different parameter configs may legitimately clash
        shard.skip("outer join of identical overlap refused (parameter config clash)")
    # clashing observation
    r4 = copy.deepcopy(r3)
    r4["observations"][-1]["data"] = [v + 2.0 for v in r4["observations"][-1]["data"]]
    expect("outer/clashing-observation", lambda: pyhf.Workspace.combine(L, pyhf.Workspace(r4), join="outer"), E.InvalidWorkspaceOperation)
    # measurement with a different POI / different parameter config
    r5 = copy.deepcopy(right)
    r5["measurements"] = [copy.deepcopy(left["measurements"][0])]
    r5["measurements"][0]["config"]["poi"] = "other_poi"
    expect("outer/incompatible-poi", lambda: pyhf.Workspace.combine(L, pyhf.Workspace(r5), join="outer"), E.InvalidWorkspaceOperation)
    r6 = copy.deepcopy(right)
    r6["measurements"] = [copy.deepcopy(left["measurements"][0])]
    r6["measurements"][0]["config"]["parameters"] = [p for p in r6["measurements"][0]["config"]["parameters"] if p["name"] != "mu"] + [{"name": "mu", "bounds": [[0.0, 7.77]], "inits": [1.0]}]
    l6 = copy.deepcopy(left)
    l6["measurements"][0]["config"]["parameters"] = [p for p in l6["measurements"][0]["config"]["parameters"] if p["name"] != "mu"] + [{"name": "mu", "bounds": [[0.0, 5.55]], "inits": [1.0]}]
    expect("outer/incompatible-parameter-config", lambda: pyhf.Workspace.combine(pyhf.Workspace(l6), pyhf.Workspace(r6), join="outer"), E.InvalidWorkspaceOperation)
    # ... and a clash that sits only in the constraint settings (same inits, bounds and fixed flag): a parameter
    # configured on both sides with another auxiliary datum / width
    for key, va, vb in (("sigmas", [0.02], [0.05]), ("auxdata", [0.98], [1.03])):
        cfg_a = {"name": "shared_cfg", "inits": [1.0], "bounds": [[0.5, 1.5]], "fixed": False, "auxdata": [1.0], "sigmas": [0.03]}
        cfg_b = copy.deepcopy(cfg_a)
        cfg_a[key], cfg_b[key] = va, vb
        l8, r8 = copy.deepcopy(left), copy.deepcopy(right)
        r8["measurements"] = [copy.deepcopy(left["measurements"][0])]
        l8["measurements"][0]["config"]["parameters"] = l8["measurements"][0]["config"]["parameters"] + [cfg_a]
        r8["measurements"][0]["config"]["parameters"] = r8["measurements"][0]["config"]["parameters"] + [cfg_b]
        expect(f"outer/incompatible-parameter-config({key} only)", lambda a=l8, b=r8: pyhf.Workspace.combine(pyhf.Workspace(a), pyhf.Workspace(b), join="outer"), E.InvalidWorkspaceOperation)
    # versions
    r7 = copy.deepcopy(right)
    r7["version"] = "1.0.1"
    for join in ("none", "outer", "left outer", "right outer"):
        expect(f"{join}/different-versions", lambda j=join: pyhf.Workspace.combine(L, pyhf.Workspace(r7, validate=False), join=j), E.InvalidWorkspaceOperation)
    expect("invalid-join-string", lambda: pyhf.Workspace.combine(L, pyhf.Workspace(right), join="inner"), ValueError)
    expect("merge_channels-with-none", lambda: pyhf.Workspace.combine(L, pyhf.Workspace(right), join="none", merge_channels=True), ValueError)
    # left/right outer: the primary side wins for a clashing channel
    for join, prim in (("left outer", left), ("right outer", r2)):
        try:
            comb = pyhf.Workspace.combine(L, pyhf.Workspace(r2), join=join)
            got = next(c for c in comb["channels"] if c["name"] == clash["name"])
            want = next(c for c in prim["channels"] if c["name"] == clash["name"])
            if as_key(got) != as_key(want) or len([c for c in comb["channels"] if c["name"] == clash["name"]]) != 1:
                shard.violate(f"C16/primary-side:{join}", f"{join}: clashing channel {clash['name']} is not the primary side's", dict(case, conflict=join), "combine_content")
            else:
                shard.ok("combine_content")
                shard.covered("primary_side_wins", join)
        except Exception as e:
            shard.violate("C16/combine-raised", f"{join} raised {type(e).__name__}: {str(e)[:150]}", dict(case, conflict=join), "combine_content")
    # merge flag: samples of a same-named channel are merged under the outer joins (disjoint samples)
    r8 = copy.deepcopy(right)
    extra = copy.deepcopy(left["channels"][0])
    extra["samples"] = [{"name": "only_in_right", "data": [1.5] * len(extra["samples"][0]["data"]), "modifiers": []}]
    r8["channels"].append(extra)
    for mjoin in ("outer", "left outer", "right outer"):
        # every operation leaves its inputs untouched - also when channels are deeply merged
        Lm, Rm = pyhf.Workspace(copy.deepcopy(left)), pyhf.Workspace(copy.deepcopy(r8))
        lm0, rm0 = copy.deepcopy(dict(Lm)), copy.deepcopy(dict(Rm))
        try:
            pyhf.Workspace.combine(Lm, Rm, join=mjoin, merge_channels=True)
        except Exception:
            continue
        if dict(Lm) != lm0 or dict(Rm) != rm0:
            shard.violate("C16/combine-mutates-input", f"combine(join={mjoin!r}, merge_channels=True) modified an input workspace", dict(case, conflict=f"merge/{mjoin}"), "inputs_untouched")
        else:
            shard.ok("inputs_untouched")
            shard.covered("inputs_checked_after", f"merge_channels/{mjoin}")
    try:
        comb = pyhf.Workspace.combine(L, pyhf.Workspace(r8, validate=True), join="left outer", merge_channels=True)
        got = next(c for c in comb["channels"] if c["name"] == extra["name"])
        want = left["channels"][0]["samples"] + extra["samples"]
        if not same_items(got["samples"], want):
            shard.violate("C16/merge-channels", "merge_channels=True did not merge the disjoint samples of a same-named channel", dict(case, conflict="merge"), "combine_content")
        else:
            shard.ok("combine_content")
            shard.covered("merge_channels", "disjoint samples merged")
    except Exception as e:
        shard.skip(f"merge_channels raised {type(e).__name__} (missing observation for merged channel)")


def check_prune_rename_sort(seed, shard):
    import pyhf

    rng = random.Random(seed)
    ws, info = gen.gen_workspace(rng, max_channels=3, max_samples=3, max_bins=3)
    w0 = copy.deepcopy(ws)
    W = pyhf.Workspace(ws)
    case = {"op": "prune/rename/sort", "seed": seed, "ws": ws}
    chans = [c["name"] for c in ws["channels"]]
    samples = sorted({s["name"] for c in ws["channels"] for s in c["samples"]})
    mods = sorted({m["name"] for c in ws["channels"] for s in c["samples"] for m in s["modifiers"]})
    mtypes = sorted({m["type"] for c in ws["channels"] for s in c["samples"] for m in s["modifiers"]})
    meas = [m["name"] for m in ws["measurements"]]
    # ---------------- prune
    sel = {"modifiers": [], "modifier_types": [], "samples": [], "channels": [], "measurements": []}
    kind = rng.choice(["channels", "samples", "modifiers", "modifier_types", "measurements", "mixed"])
    if kind in ("channels", "mixed") and len(chans) > 1:
        sel["channels"] = rng.sample(chans, rng.randint(1, len(chans) - 1))
    if kind in ("samples", "mixed"):
        cand = [s for s in samples if s != "signal" and all(len([x for x in c["samples"] if x["name"] != s]) >= 1 for c in ws["channels"])]
        if cand:
            sel["samples"] = [rng.choice(cand)]
    if kind in ("modifiers", "mixed"):
        cand = [m for m in mods if m != "mu"]
        if cand:
            sel["modifiers"] = rng.sample(cand, rng.randint(1, min(2, len(cand))))
    if kind == "modifier_types":
        cand = [t for t in mtypes if t not in ("normfactor", "lumi")]
        if cand:
            sel["modifier_types"] = [rng.choice(cand)]
    if kind == "measurements" and len(meas) > 1:
        sel["measurements"] = [rng.choice(meas)]
    # a sample must not be left in *every* channel empty
    ref = ref_prune(ws, **sel)
    if all(len(c["samples"]) >= 1 for c in ref["channels"]) and ref["channels"] and ref["measurements"]:
        try:
            got = W.prune(**sel)
            if dict(got) != ref:
                shard.violate("C16/prune-content", f"prune({ {k: v for k, v in sel.items() if v} }) differs from the independently filtered workspace", dict(case, selection=sel), "prune")
            else:
                pyhf.schema.validate(dict(got), "workspace.json")
                shard.ok("prune")
                if any(sel.values()):
                    shard.nontrivial("prune", sorted((k, tuple(v)) for k, v in sel.items() if v), len(chans))
                for k, v in sel.items():
                    if v:
                        shard.covered("prune_kinds", k)
            # channel pruning leaves the likelihood of the remainder unchanged
            if sel["channels"] and not (sel["samples"] or sel["modifiers"] or sel["modifier_types"]) and dict(got) == ref:
                keep_meas = next(m for m in meas if m not in sel["measurements"])
                m_all = W.model(measurement_name=keep_meas)
                m_keep = got.model(measurement_name=keep_meas)
                m_drop = W.prune(channels=[c for c in chans if c not in sel["channels"]]).model(measurement_name=keep_meas)
                obs = {o["name"]: o["data"] for o in ws["observations"]}
                pa = pars_by_name(m_all, rng)
                aa = aux_by_name(m_all, rng)
                resized = [n for mm in (m_keep, m_drop) for n in mm.config.par_order if mm.config.param_set(n).n_parameters != m_all.config.param_set(n).n_parameters]
                try:
                    if resized:
                        raise KeyError(f"{resized[0]} spans kept and pruned channels")
                    a = main_and_constraint(m_all, pa, obs, aa)[0]
                    b = main_and_constraint(m_keep, {n: pa[n] for n in m_keep.config.par_order}, obs, {n: aa[n] for n in m_keep.config.auxdata_order})[0]
                    d = main_and_constraint(m_drop, {n: pa[n] for n in m_drop.config.par_order}, obs, {n: aa[n] for n in m_drop.config.auxdata_order})[0]
                    if all(math.isfinite(v) for v in (a, b, d)):
                        if not abs(a - (b + d)) <= 1e-9 * (abs(b) + abs(d) + 1):
                            shard.violate("C16/prune-likelihood", f"mainlogpdf(all)={a!r} != kept {b!r} + pruned {d!r}", dict(case, selection=sel), "prune")
                        else:
                            shard.ok("prune")
                except KeyError as e:
                    shard.skip(f"staterror set spanning kept and pruned channels (size changes): {e}")
        except Exception as e:
            shard.violate("C16/prune-raised", f"prune({sel}) raised {type(e).__name__}: {str(e)[:200]}", dict(case, selection=sel), "prune")
    # unknown names must be refused
    try:
        W.prune(channels=["no_such_channel"])
        shard.violate("C16/prune-unknown-accepted", "prune of an unknown channel accepted", case, "prune")
    except pyhf.exceptions.InvalidWorkspaceOperation:
        shard.ok("prune")
    # ---------------- rename
    maps = {
        "modifiers": {n: "ren_" + n for n in rng.sample(mods, rng.randint(1, len(mods)))},
        "samples": {n: n + "_new" for n in rng.sample(samples, rng.randint(0, len(samples)))},
        "channels": {n: "C_" + n for n in rng.sample(chans, rng.randint(0, len(chans)))},
        "measurements": {n: n + "_m" for n in rng.sample(meas, rng.randint(0, len(meas)))},
    }
    maps["modifiers"].pop("lumi", None)  # the schema fixes the name of the lumi modifier
    if any(m["type"] == "staterror" and sum(1 for c2 in ws["channels"] for s2 in c2["samples"] for m2 in s2["modifiers"] if m2["name"] == m["name"] and c2["name"] != c["name"]) for c in ws["channels"] for s in c["samples"] for m in s["modifiers"]):
        # a staterror set spanning several channels orders its components by channel: renaming channels
        # permutes components, which the by-name parameter mapping of this check cannot follow
        maps["channels"] = {}
    ref = ref_rename(ws, **maps)
    try:
        got = W.rename(**maps)
        inv = {k: {v: kk for kk, v in m.items()} for k, m in maps.items()}
        back = got.rename(**inv)
        rp = []
        if dict(got) != ref:
            rp.append("rename differs from the independent relabelling")
        if dict(back) != w0:
            rp.append("rename followed by the inverse rename is not the identity")
        if not rp:
            m1 = W.model()
            m2 = got.model(measurement_name=maps["measurements"].get(meas[0], meas[0]))
            p1 = pars_by_name(m1, rng)
            a1 = aux_by_name(m1, rng)
            obs1 = {o["name"]: o["data"] for o in ws["observations"]}
            mm = maps["modifiers"]
            p2 = {mm.get(n, n): v for n, v in p1.items()}
            a2 = {mm.get(n, n): v for n, v in a1.items()}
            obs2 = {maps["channels"].get(n, n): v for n, v in obs1.items()}
            f1 = main_and_constraint(m1, p1, obs1, a1)[2]
            f2 = main_and_constraint(m2, p2, obs2, a2)[2]
            if math.isfinite(f1) and not abs(f1 - f2) <= 1e-9 * (abs(f1) + 1):
                rp.append(f"logpdf changed under renaming: {f1!r} -> {f2!r}")
        if rp:
            shard.violate("C16/rename", "; ".join(rp), dict(case, maps=maps), "rename")
        else:
            shard.ok("rename")
            shard.nontrivial("rename", sorted(maps["modifiers"]), sorted(maps["channels"]), sorted(maps["samples"]))
    except Exception as e:
        shard.violate("C16/rename-raised", f"rename raised {type(e).__name__}: {str(e)[:200]}", dict(case, maps=maps), "rename")
    # ---------------- sorted
    try:
        s1 = pyhf.Workspace.sorted(W)
        s2 = pyhf.Workspace.sorted(s1)
        sp = []
        if dict(s1) != ref_sorted(ws):
            sp.append("sorted differs from the independent sort")
        if dict(s2) != dict(s1):
            sp.append("sorted is not idempotent")
        for k in range(2):
            pw = permute_workspace(rng, ws)
            if dict(pyhf.Workspace.sorted(pyhf.Workspace(pw))) != dict(s1):
                sp.append("sorted is not canonical under permutation of the input lists")
                break
        if not sp:
            ma, mb = W.model(measurement_name=meas[0]), s1.model(measurement_name=meas[0])
            p1 = pars_by_name(ma, rng)
            a1 = aux_by_name(ma, rng)
            obs1 = {o["name"]: o["data"] for o in ws["observations"]}
            f1 = main_and_constraint(ma, p1, obs1, a1)[2]
            f2 = main_and_constraint(mb, p1, obs1, a1)[2]
            if math.isfinite(f1) and not abs(f1 - f2) <= 1e-9 * (abs(f1) + 1):
                sp.append(f"logpdf changed by sorting: {f1!r} -> {f2!r}")
        if sp:
            shard.violate("C16/sorted", "; ".join(sp), case, "sorted")
        else:
            shard.ok("sorted")
    except Exception as e:
        shard.violate("C16/sorted-raised", f"{type(e).__name__}: {str(e)[:200]}", case, "sorted")
    if ws != w0 or dict(W) != w0:
        shard.violate("C16/operation-mutates-input", "prune/rename/sorted modified the input workspace", case, "inputs_untouched")
    else:
        shard.ok("inputs_untouched")
    # every operation returns a NEW workspace: not the input object, and sharing nothing with it - the caller edits every
    # leaf of the result in place and the input must not notice.  Empty selections included (they select nothing, the
    # result is an equal, separate workspace).
    from .c17 import scramble
    ops = [("prune()", lambda: W.prune(), w0), ("prune(modifiers=[])", lambda: W.prune(modifiers=[]), w0), ("rename()", lambda: W.rename(), w0),
           ("rename(channels={})", lambda: W.rename(channels={}), w0), ("prune(selection)", lambda: W.prune(**sel), None),
           ("rename(maps)", lambda: W.rename(**maps), None), ("sorted", lambda: pyhf.Workspace.sorted(W), None)]
    for label, fn, want in ops:
        try:
            out = fn()
        except Exception as e:
            if want is not None:
                shard.violate("C16/empty-selection-raised", f"{label} raised {type(e).__name__}: {str(e)[:150]}", dict(case, operation=label), "inputs_untouched")
            continue
        ap = []
        if out is W:
            ap.append("returned the input object itself")
        if want is not None and dict(out) != want:
            ap.append("an empty selection changed the content")
        if not ap:
            scramble(out)
            if dict(W) != w0:
                ap.append("editing the result in place changed the input workspace")
        if ap:
            shard.violate("C16/result-aliases-input", f"{label}: " + "; ".join(ap), dict(case, operation=label), "inputs_untouched")
            W = pyhf.Workspace(copy.deepcopy(w0))
        else:
            shard.ok("inputs_untouched")
            shard.covered("aliasing_checked_after", label)


def plan(tier, seed):
    n = 13 if tier == "quick" else 380
    return [{"n": n, "seed": seed * 179424673 + i * 100000} for i in range(16)]


def run_shard(shard):
    import logging
    logging.disable(logging.CRITICAL)
    p = shard.params
    for k in range(p["n"]):
        s = p["seed"] + k
        check_combine(s, shard)
        check_prune_rename_sort(s + 50000, shard)
        if k % 3 == 0:
            check_conflicts(s + 70000, shard)
    if shard.index == 0:
        rng = random.Random(p["seed"])
        l, r = make_pair(rng)
        shard.sample({"left_channels": [c["name"] for c in l["channels"]], "right_channels": [c["name"] for c in r["channels"]],
                      "left_measurements": l["measurements"], "right_measurements": r["measurements"]})


def replay(rec, shard):
    import logging
    logging.disable(logging.CRITICAL)
    c = rec["case"]
    if c["op"] == "combine":
        check_combine(c["seed"], shard)
    elif c["op"] == "conflict":
        check_conflicts(c["seed"], shard)
    else:
        check_prune_rename_sort(c["seed"], shard)
