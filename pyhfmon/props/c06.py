"""C06 — profile-likelihood test statistics obey their case definitions.

Postcondition monitor on qmu / qmu_tilde / q0 / tmu / tmu_tilde(..., return_fitted_pars=True):
the value is re-derived from the fitted parameter vectors the function itself returns
(conditioning on them removes optimiser noise from the case analysis); closed forms for
signal-strength-only counting models.
"""
import copy
import math
import random

from .. import gen
from .. import refstats as RS
from .c03 import to_np

LEVEL = "exploration"
RULE = (
    "Models: signal-strength-only counting models (1-3 channels x 1-3 bins, closed form) and well-posed generated models "
    "with nuisance parameters; datasets on both sides of the tested hypothesis (fitted POI above, below, at the tested value, "
    "at the lower bound); tested values across the POI range; five statistics {q, qtilde, q0, t, ttilde}; POI lower bound zero or "
    "negative. A case = (model, data, mu, statistic); non-trivial when it exercises a zeroing branch (muhat>mu, muhat<0, muhat at "
    "the bound) or yields a strictly positive statistic; distinct by (model shape, data, mu, statistic, branch)."
)
ASSUMPTIONS = [
    "identity at the returned parameters: |q - max(0, 2NLL(mu,theta^^) - 2NLL(muhat,theta^))| <= 1e-9*(|2NLL|+1)",
    "closed forms: 1e-4 + 1e-5*q (SciPy fit tolerance, measured noise <= 4e-7); zero at the best fit: q(muhat_returned) <= 1e-3 (largest seen on clean code 4.6e-5 with nuisance parameters)",
    "fits that report failure are skipped and counted (C05 judges fits)",
]
REQUIRED = ("identity", "case_rules", "closed_form", "zero_at_bestfit")

STATS = ["q", "qtilde", "q0", "t", "ttilde"]


def counting_spec(rng):
    nch = rng.randint(1, 3)
    chans = []
    for c in range(nch):
        nb = rng.randint(1, 3)
        sig = [gen._round(rng.uniform(2, 15), 2) for _ in range(nb)]
        bkg = [gen._round(rng.uniform(15, 90), 2) for _ in range(nb)]
        chans.append({"name": f"ch{c}", "samples": [
            {"name": "signal", "data": sig, "modifiers": [{"name": "mu", "type": "normfactor", "data": None}]},
            {"name": "bkg", "data": bkg, "modifiers": []}]})
    return {"channels": chans}


def counting_arrays(spec):
    ss = [x for c in sorted(spec["channels"], key=lambda c: c["name"]) for x in c["samples"][0]["data"]]
    bs = [x for c in sorted(spec["channels"], key=lambda c: c["name"]) for x in c["samples"][1]["data"]]
    return ss, bs


def statfn(name):
    from pyhf.infer import test_statistics as T
    return {"q": T.qmu, "qtilde": T.qmu_tilde, "q0": T.q0, "t": T.tmu, "ttilde": T.tmu_tilde}[name]


def check_case(case, shard):
    import pyhf
    from pyhf import exceptions as E

    spec = case["spec"]
    opt = case.get("optimizer", "scipy")
    if opt != pyhf.optimizer.name:
        pyhf.set_backend(pyhf.tensorlib, opt)
    shard.covered("optimizers", opt)
    # MINUIT at its default tolerance is legitimately off by up to ~2e-4 on 2NLL for flat minima (calibration, DESIGN 2.6)
    cf_abs, cf_rel, zero_tol = (1e-4, 1e-5, 1e-3) if opt == "scipy" else (2e-2, 1e-3, 2e-2)
    model = pyhf.Model(copy.deepcopy(spec), poi_name="mu")
    poi = model.config.poi_index
    init = model.config.suggested_init()
    fixed = model.config.suggested_fixed()
    data = case["data"] + list(model.config.auxdata)
    # the caller holds a nuisance parameter, which the model leaves free, constant at a value of the caller's choosing:
    # both fits behind the statistic are then fits under that constraint
    hold = case.get("hold")
    if hold:
        init[hold[0]] = hold[1]
        fixed[hold[0]] = True
        shard.covered("caller_fixed", "constrained nuisance held off nominal" if init[hold[0]] != model.config.suggested_init()[hold[0]] and model.config.suggested_init()[hold[0]] == 0.0 else "bin-wise or free factor held off nominal")
    counting = case["kind"] == "counting"
    if counting:
        ss, bs = counting_arrays(spec)
    if case.get("previous_data"):
        shard.covered("model_reuse", "statistics on other data first, same model object")
    for stat in case.get("stats", STATS):
        if case.get("previous_data"):
            try:
                b0 = [tuple(b) for b in model.config.suggested_bounds()]
                b0[poi] = (0.0, case["hi"])
                statfn(stat)(1.0, case["previous_data"] + list(model.config.auxdata), model, init, b0, fixed)
            except Exception:
                pass
        tilde = stat in ("qtilde", "ttilde") or (stat == "q0" and not case.get("q0_neg", True))
        bounds = [tuple(b) for b in model.config.suggested_bounds()]
        lo = 0.0 if tilde else case["neg_lo"]
        bounds[poi] = (lo, case["hi"])
        mu = case["mu"]
        mu_eff = 0.0 if stat == "q0" else mu
        if not (lo <= mu_eff <= case["hi"]):
            continue
        try:
            val, (mubhathat, muhatbhat) = statfn(stat)(mu, data, model, init, bounds, fixed, return_fitted_pars=True)
        except E.FailedMinimization:
            shard.skip("fit reported failure")
            continue
        except Exception as e:
            shard.violate(f"C06/{stat}:raised", f"{stat}(mu={mu}) raised {type(e).__name__}: {str(e)[:200]}; bounds_poi={bounds[poi]} data={case['data']} backend={case['backend']}", dict(case, stat=stat), "case_rules")
            continue
        v = float(to_np(val))
        cond = [float(x) for x in to_np(mubhathat)]
        free = [float(x) for x in to_np(muhatbhat)]
        nll_c = -2 * float(to_np(model.logpdf(cond, data))[0])
        nll_f = -2 * float(to_np(model.logpdf(free, data))[0])
        muhat = free[poi]
        ctx = f"stat={stat} mu={mu} muhat_returned={muhat!r} bounds_poi={bounds[poi]} data={case['data']} backend={case['backend']}"
        c = dict(case, stat=stat)
        # --- case rules
        probs = []
        if not v >= 0:
            probs.append(f"negative or NaN statistic {v!r}")
        if cond[poi] != mu_eff:
            probs.append(f"conditional fit holds POI at {cond[poi]!r}, tested value is {mu_eff!r}")
        if hold:
            for which, vec in (("conditional", cond), ("unconditional", free)):
                if not abs(vec[hold[0]] - hold[1]) <= 1e-9:
                    probs.append(f"{which} fit moved parameter {hold[0]} to {vec[hold[0]]!r} although the caller holds it constant at {hold[1]!r}")
        if stat in ("q", "qtilde") and muhat > mu and v != 0.0:
            probs.append(f"upper-limit statistic {v!r} != 0 although fitted POI {muhat!r} > tested {mu!r}")
        if stat == "q0" and muhat < 0 and v != 0.0:
            probs.append(f"discovery statistic {v!r} != 0 although fitted POI {muhat!r} < 0")
        if probs:
            shard.violate(f"C06/{stat}:case-rule", "; ".join(probs) + "; " + ctx, c, "case_rules")
        else:
            shard.ok("case_rules")
        # --- identity at the returned parameters
        expect = max(0.0, nll_c - nll_f)
        zeroed = (stat in ("q", "qtilde") and muhat > mu) or (stat == "q0" and muhat < 0)
        if zeroed:
            expect = 0.0
        if not abs(v - expect) <= 1e-9 * (abs(nll_c) + abs(nll_f) + 1):
            shard.violate(f"C06/{stat}:identity", f"value {v!r} != max(0, 2NLL(cond) - 2NLL(free)) = {expect!r} at the returned parameters (zeroing rule {'applied' if zeroed else 'not applicable'}); {ctx}", c, "identity")
        else:
            shard.ok("identity")
        # --- the plain call (no fitted parameters requested, the default every caller but the asymptotic calculator
        # uses) is the same statistic: same inputs, same fits
        try:
            vp = float(to_np(statfn(stat)(mu, data, model, init, bounds, fixed)))
            if not abs(vp - v) <= 1e-7 * (abs(nll_c) + abs(nll_f) + 1):
                shard.violate(f"C06/{stat}:plain-call-differs", f"plain call returns {vp!r}, the call that also returns the fitted parameters {v!r}; {ctx}", c, "identity")
            else:
                shard.ok("identity")
        except E.FailedMinimization:
            shard.skip("fit reported failure")
        except Exception as e:
            shard.violate(f"C06/{stat}:raised", f"plain {stat}(mu={mu}) raised {type(e).__name__}: {str(e)[:200]}; {ctx}", c, "case_rules")
        branch = "zeroed" if zeroed else ("at-bound" if abs(muhat - lo) < 1e-6 else ("positive" if v > 1e-6 else "zero"))
        shard.covered(f"branches_{stat}", branch)
        # --- closed form
        if counting:
            ref, rmuhat = RS.counting_teststat(stat if stat in ("q", "qtilde", "q0") else "t", mu, case["data"], ss, bs, lo, case["hi"])
            ref = float(ref)
            if not abs(v - ref) <= cf_abs + cf_rel * abs(ref):
                shard.violate(f"C06/{stat}:closed-form", f"value {v!r} != closed form {ref!r} (muhat closed form {float(rmuhat)!r}); {ctx}", c, "closed_form")
            else:
                shard.ok("closed_form")
                shard.maximum("closed_form_abs_err", abs(v - ref))
        # --- zero when the tested value is the best-fit value (two-sided statistics and q/qtilde)
        # the statement scopes "zero when the tested value is the best-fit value" to models with a closed form
        # (with nuisance parameters the conditional fit may sit in another local minimum than the free fit)
        if counting and stat in ("t", "ttilde", "q", "qtilde") and lo + 1e-3 < muhat < case["hi"] - 1e-3:
            try:
                v0 = float(to_np(statfn(stat)(muhat, data, model, init, bounds, fixed)))
                if not (0 <= v0 <= zero_tol):
                    shard.violate(f"C06/{stat}:not-zero-at-bestfit", f"statistic at the returned best-fit value {muhat!r} is {v0!r}; {ctx}", c, "zero_at_bestfit")
                else:
                    shard.ok("zero_at_bestfit")
                    shard.maximum("stat_at_returned_bestfit", v0)
            except E.FailedMinimization:
                shard.skip("fit reported failure")
            except Exception as e:
                shard.violate(f"C06/{stat}:raised", f"{stat}(mu=muhat={muhat!r}) raised {type(e).__name__}: {str(e)[:200]}; bounds_poi={bounds[poi]}", c, "zero_at_bestfit")
        if branch in ("zeroed", "at-bound", "positive"):
            shard.nontrivial(case["kind"], [len(ch["samples"][0]["data"]) for ch in spec["channels"]], case["data"], mu, stat, branch, case["backend"])


def make_case(rng, backend, kind):
    import pyhf

    if kind == "counting":
        spec = counting_spec(rng)
    else:
        while True:
            spec, _ = gen.gen_spec(rng, profile="wellposed", max_channels=2, max_samples=3, max_bins=3, max_nuis=8,
                                   types=["normfactor", "normsys", "histosys", "shapesys", "staterror"])
            spec["parameters"] = []
            break
    model = pyhf.Model(copy.deepcopy(spec), poi_name="mu")
    truth = rng.choice([0.0, 0.0, 0.5, 1.0, 2.0, 3.0])
    pars = model.config.suggested_init()
    pars[model.config.poi_index] = truth
    rates = [float(x) for x in to_np(model.expected_actualdata(pars))]
    r = rng.random()
    if r < 0.15:
        data = [float(round(x)) for x in rates]
    elif r < 0.25 and kind == "counting":
        data = [float(gen.poisson_draw(rng, x * 0.6)) for x in rates]  # deficit: muhat at/below the bound (concave likelihood only)
    elif r < 0.32:
        data = [gen._round(x, 3) for x in rates]  # Asimov-like non-integers
    else:
        data = [float(gen.poisson_draw(rng, x)) for x in rates]
    mu = rng.choice([0.0, 0.3, 1.0, 1.0, 2.0, 4.0, gen._round(rng.uniform(0, 6), 2), "neg"])
    # keep every expectation positive for negative mu
    minratio = 1e9
    for ch in spec["channels"]:
        sig = next(s for s in ch["samples"] if s["name"] == "signal")
        tot_b = [sum(s["data"][b] for s in ch["samples"] if s["name"] != "signal") for b in range(len(sig["data"]))]
        for s_, b_ in zip(sig["data"], tot_b):
            if s_ > 0:
                minratio = min(minratio, b_ / s_)
    neg_lo = -gen._round(min(0.4 * minratio, 4.0), 2) if minratio > 0.1 else 0.0
    if mu == "neg":
        # a tested value below zero (only reachable by the statistics that allow a negative POI bound)
        mu = gen._round(0.5 * neg_lo, 3) if neg_lo < 0 else 0.0
    case = {"kind": kind, "spec": spec, "data": data, "mu": mu, "neg_lo": neg_lo, "hi": 10.0, "backend": backend, "truth": truth, "q0_neg": rng.random() < 0.6}
    if kind != "counting" and rng.random() < 0.35:
        sb, sf = model.config.suggested_bounds(), model.config.suggested_fixed()
        cands = [i for i in range(model.config.npars) if i != model.config.poi_index and not sf[i]]
        if cands:
            i = rng.choice(cands)
            i0 = model.config.suggested_init()[i]
            v = rng.choice([-0.8, 0.4, 1.1]) if i0 == 0.0 else i0 * rng.choice([0.9, 1.1])
            if sb[i][0] < v < sb[i][1]:
                case["hold"] = [i, v]
    if rng.random() < 0.3:
        # the same model object has served a statistic on OTHER data first
        case["previous_data"] = [float(gen.poisson_draw(rng, x * rng.choice([0.7, 1.5]))) for x in rates]
    return case


def plan(tier, seed):
    if tier == "quick":
        lay = [("numpy", 14)] * 12 + [("jax", 4)] * 2 + [("pytorch", 6)] * 2
    else:
        lay = [("numpy", 800)] * 10 + [("jax", 120)] * 2 + [("pytorch", 300)] * 2 + [("tensorflow", 120)] * 2
    return [{"backend": b, "n": n, "seed": seed * 982451653 + i} for i, (b, n) in enumerate(lay)]


def run_shard(shard):
    import logging
    logging.disable(logging.CRITICAL)
    import pyhf

    p = shard.params
    pyhf.set_backend(p["backend"], precision="64b")
    shard.covered("backends", p["backend"])
    rng = random.Random(p["seed"])
    for k in range(p["n"]):
        kind = "counting" if k % 2 == 0 else "wellposed"
        case = make_case(rng, p["backend"], kind)
        if p["backend"] == "numpy" and k % 4 in (2, 3):
            case["optimizer"] = "minuit"
        check_case(case, shard)
        if pyhf.optimizer.name != "scipy":
            pyhf.set_backend(pyhf.tensorlib, "scipy")
        if k < 2 and shard.index == 0:
            shard.sample(case)


def replay(rec, shard):
    import logging
    logging.disable(logging.CRITICAL)
    import pyhf

    c = rec["case"]
    pyhf.set_backend(c["backend"], precision="64b")
    if "stat" in c:
        c["stats"] = [c.pop("stat")]
    check_case(c, shard)
