"""C14 — toy p-values are exact tail fractions of correctly sampled pseudo-data.

(a) exact counting oracle on EmpiricalDistribution.pvalue; (b) moment z-tests on
Model.make_pdf(pars).sample at fixed seeds; (c) toy CL_s+b / CL_b against exactly enumerated
tail probabilities of counting models, with a monitor on make_pdf inside
ToyCalculator.distributions checking that pseudo-data are generated at the conditional best-fit
parameters of the respective hypothesis.
"""
import copy
import math
import random

from .. import attach, gen
from .. import refstats as RS
from . import c01, c06
from .c03 import to_np

LEVEL = "exploration"
RULE = (
    "(a) generated sample vectors with ties, repeated values and observed values inside / outside the sample range on every "
    "backend; (b) generated models x parameter points, n=20000 draws at seeds derived from VERIF_SEED; (c) single- and two-bin "
    "counting models with small expectations (macroscopic ties), observed counts, tested mu, 1500 toys, and a one-nuisance model "
    "for the hypothesis-identification monitor. A case = one vector/value pair, one (model, point) sample, or one toy run; "
    "non-trivial when (a) the observed value ties with sample entries, (b) the model has both constraint types, (c) 0.02 < exact p < "
    "0.98 and P(q = q_obs) > 1%."
)
ASSUMPTIONS = [
    "statistical verdicts at fixed seeds: z-thresholds at 6.5 sigma with Bonferroni over the comparisons of a run (false-alarm probability < 1e-7 per run)",
    "toy estimates must lie within 6*sqrt(p(1-p)/N) + 1/N of the exactly enumerated tail probability",
    "the statistic of a counting model is a deterministic function of the counts; its closed form comes from pyhfmon/refstats.py",
    "numpy / scipy.stats, torch and TFP samplers are part of pyhf's observable behaviour",
]
REQUIRED = ("empirical_pvalue", "sample_shape_and_support", "sample_moments", "toy_vs_exact", "toy_hypotheses")


# ------------------------------------------------------------------ (a)
def check_empirical(rng, shard, backend):
    import pyhf
    from pyhf.infer.calculators import EmpiricalDistribution

    tb = pyhf.tensorlib
    n = rng.randint(1, 60)
    kind = rng.random()
    if kind < 0.4:
        vals = [float(rng.randint(0, 6)) for _ in range(n)]
    elif kind < 0.7:
        vals = [round(rng.uniform(0, 10), 1) for _ in range(n)]
    else:
        vals = [rng.uniform(0, 30) for _ in range(n)]
    dist = EmpiricalDistribution(tb.astensor(vals))
    probes = sorted(set([rng.choice(vals), rng.choice(vals), min(vals) - 1.0, max(vals) + 1.0, min(vals), max(vals), rng.uniform(0, 10)]))
    prev = None
    for v in probes:
        got = float(to_np(dist.pvalue(tb.astensor(v))))
        want = sum(1 for s in vals if s >= v) / n
        case = {"samples": vals, "value": v, "backend": backend}
        if got != want and abs(got - want) > 1e-12:
            shard.violate("C14/empirical-pvalue", f"pvalue({v!r}) = {got!r}, exact fraction of samples >= value = {want!r} ({sum(1 for s in vals if s == v)} ties); backend={backend}", case, "empirical_pvalue")
        elif not (0 <= got <= 1) or (prev is not None and got > prev + 1e-15):
            shard.violate("C14/empirical-pvalue-monotone", f"pvalue not in [0,1] or increasing with the observed value: {prev!r} -> {got!r}", case, "empirical_pvalue")
        else:
            shard.ok("empirical_pvalue")
            if any(s == v for s in vals):
                shard.nontrivial("emp", backend, vals, v)
                shard.covered("empirical", "tie at the observed value")
            if v > max(vals) or v < min(vals):
                shard.covered("empirical", "observed value outside the sample range")
        prev = got


# ------------------------------------------------------------------ (b)
def seed_all(seed):
    import numpy as np
    np.random.seed(seed % (2 ** 31))
    try:
        import torch
        torch.manual_seed(seed)
    except Exception:
        pass
    try:
        import tensorflow as tf
        tf.random.set_seed(seed)
    except Exception:
        pass


def check_sampling(rng, shard, backend, ncomp_total):
    import numpy as np
    import pyhf
    from ..refmodel import Layout, RefModel

    tb = pyhf.tensorlib
    spec, _ = gen.gen_spec(rng, profile="wellposed", max_channels=2, max_samples=3, max_bins=3, max_nuis=8)
    spec["parameters"] = [p for p in spec["parameters"] if p["name"] == "lumi"]
    model = pyhf.Model(copy.deepcopy(spec), poi_name="mu")
    L = Layout(model)
    ref = RefModel(spec, L)
    cfg = model.config
    flags = c01.alpha_flags(spec, L)
    pars = []
    for i, (lo, hi) in enumerate(cfg.suggested_bounds()):
        pars.append(rng.uniform(-1.5, 1.5) if flags[i] else rng.uniform(max(lo, 0.6), min(hi, 1.5)))
    N = 20000
    seed = rng.randrange(1 << 30)
    seed_all(seed)
    case = {"spec": spec, "pars": pars, "seed": seed, "backend": backend}
    try:
        pdf = model.make_pdf(tb.astensor(pars))
        smp = np.asarray(to_np(pdf.sample((N,))), dtype=float)
        one = np.asarray(to_np(pdf.sample(())), dtype=float)
        two = np.asarray(to_np(pdf.sample((3, 2))), dtype=float)
    except Exception as e:
        shard.violate("C14/sample-raised", f"sample raised {type(e).__name__}: {str(e)[:200]}; backend={backend}", case, "sample_shape_and_support")
        return
    nd = cfg.nmaindata + cfg.nauxdata
    probs = []
    if smp.shape != (N, nd) or one.shape != (nd,) or two.shape != (3, 2, nd):
        probs.append(f"shapes {smp.shape}, {one.shape}, {two.shape} for ndata={nd}")
    else:
        main = smp[:, : cfg.nmaindata]
        if np.any(main < 0) or np.any(main != np.round(main)):
            probs.append("main counts are not non-negative integers")
    if probs:
        shard.violate("C14/sample-shape-or-support", "; ".join(probs) + f"; backend={backend}", case, "sample_shape_and_support")
        return
    shard.ok("sample_shape_and_support")
    rates = [float(x) for x in to_np(model.expected_actualdata(tb.astensor(pars)))]
    cs = ref.constraint_spec()
    # Bonferroni: ncomp_total comparisons per run at total false-alarm 1e-7 -> per-comparison two-sided tail
    z = 6.5
    bad = []
    ncomp = 0
    for g, lam in enumerate(rates):
        col = smp[:, g]
        m, v = col.mean(), col.var(ddof=1)
        ncomp += 2
        if abs(m - lam) > z * math.sqrt(lam / N):
            bad.append(f"bin {g}: mean {m:.4f} vs rate {lam:.4f}")
        if abs(v - lam) > z * math.sqrt((lam + 2 * lam * lam) / N) * 1.05:
            bad.append(f"bin {g}: variance {v:.4f} vs rate {lam:.4f}")
    offs = L.aux_offsets()
    kinds = set()
    for name in L.auxdata_order:
        p0 = L.par_slice[name][0]
        for i, comp in enumerate(cs[name]):
            if comp["degenerate"]:
                continue
            col = smp[:, cfg.nmaindata + offs[name] + i]
            th = pars[p0 + i]
            m, v = col.mean(), col.var(ddof=1)
            ncomp += 2
            kinds.add(comp["kind"])
            if comp["kind"] == "normal":
                sg = comp["sigma"]
                if abs(m - th) > z * sg / math.sqrt(N):
                    bad.append(f"aux {name}[{i}]: mean {m:.5f} vs parameter {th:.5f} (sigma {sg:.4f})")
                if abs(v - sg * sg) > z * sg * sg * math.sqrt(2.0 / N) * 1.05:
                    bad.append(f"aux {name}[{i}]: variance {v:.6f} vs sigma^2 {sg * sg:.6f}")
            else:
                lam = th * comp["tau"]
                if abs(m - lam) > z * math.sqrt(lam / N):
                    bad.append(f"aux {name}[{i}]: mean {m:.4f} vs gamma*tau {lam:.4f}")
                if abs(v - lam) > z * math.sqrt((lam + 2 * lam * lam) / N) * 1.05:
                    bad.append(f"aux {name}[{i}]: variance {v:.4f} vs gamma*tau {lam:.4f}")
                if np.any(col < 0) or np.any(col != np.round(col)):
                    bad.append(f"aux {name}[{i}]: Poisson-constrained auxiliary data are not counts")
    if bad:
        shard.violate("C14/sample-moments", "; ".join(bad[:4]) + f"; backend={backend} seed={seed}", case, "sample_moments")
    else:
        shard.ok("sample_moments", ncomp)
        if len(kinds) == 2:
            shard.nontrivial("sampling", backend, c01.shape_signature(spec), seed)
    for k in kinds:
        shard.covered("sampled_constraint_kinds", k)


# ------------------------------------------------------------------ (c)
def pois_pmf(n, lam):
    return math.exp(n * math.log(lam) - lam - math.lgamma(n + 1)) if lam > 0 else (1.0 if n == 0 else 0.0)


def check_toys_exact(rng, shard, backend, ntoys):
    import numpy as np
    import pyhf

    nb = rng.choice([1, 1, 2])
    ss = [round(rng.uniform(2.0, 5.0), 2) for _ in range(nb)]
    bs = [round(rng.uniform(2.0, 6.0), 2) for _ in range(nb)]
    spec = {"channels": [{"name": "c", "samples": [{"name": "signal", "data": ss, "modifiers": [{"name": "mu", "type": "normfactor", "data": None}]},
                                                    {"name": "bkg", "data": bs, "modifiers": []}]}]}
    model = pyhf.Model(spec, poi_name="mu")
    mu = rng.choice([0.8, 1.0, 1.5, 2.0])
    ts = rng.choice(["qtilde", "qtilde", "q0", "q"])
    obs = [float(gen.poisson_draw(rng, b + (0.3 if ts != "q0" else 1.2) * s)) for s, b in zip(ss, bs)]
    mu_eff = 0.0 if ts == "q0" else mu
    seed = rng.randrange(1 << 30)
    seed_all(seed)
    case = {"s": ss, "b": bs, "obs": obs, "mu": mu, "test_stat": ts, "ntoys": ntoys, "seed": seed, "backend": backend}
    # a scan reuses ONE toy calculator for several POI values: in a third of the cases the tested value is the second one
    # asked of the same calculator object (the first one is a different POI value with few toys' worth of state)
    reuse = case["reuse"] = ts != "q0" and rng.random() < 0.34
    try:
        if reuse:
            from pyhf.infer import calculators as C
            calc = C.ToyCalculator(list(obs) + list(model.config.auxdata), model, test_stat=ts, ntoys=ntoys, track_progress=False)
            other = mu_eff + rng.choice([0.7, 1.3])
            calc.pvalues(calc.teststatistic(other), *calc.distributions(other))
            seed_all(seed)
            stat = calc.teststatistic(mu_eff)
            d_sb, d_b = calc.distributions(mu_eff)
            pv = calc.pvalues(stat, d_sb, d_b)
            res = (pv[2], [pv[0], pv[1]])
        else:
            res = pyhf.infer.hypotest(mu_eff, obs, model, calctype="toybased", ntoys=ntoys, test_stat=ts, track_progress=False, return_tail_probs=True)
    except Exception as e:
        shard.violate("C14/toy-hypotest-raised", f"{type(e).__name__}: {str(e)[:200]}; backend={backend} reuse={reuse}", case, "toy_vs_exact")
        return
    tails = [float(to_np(x)) for x in res[1]]
    main = float(to_np(res[0]))
    # exact enumeration
    q_obs = float(RS.counting_teststat(ts, mu, obs, ss, bs, 0.0, 10.0)[0])
    nmax = [int(max(b + 10 * s, 30) + 40) for s, b in zip(ss, bs)]
    grids = [range(n + 1) for n in nmax]
    import itertools
    p_sb = p_b = p_tie_sb = p_tie_b = 0.0
    alt_mu = 1.0 if ts == "q0" else 0.0   # the "background-like" sample of pyhf: mu=0 (q, qtilde) or mu=1 (q0)
    for ns in itertools.product(*grids):
        w_sb = math.prod(pois_pmf(n, mu_eff * s + b) for n, s, b in zip(ns, ss, bs))
        w_b = math.prod(pois_pmf(n, alt_mu * s + b) for n, s, b in zip(ns, ss, bs))
        if w_sb < 1e-13 and w_b < 1e-13:
            continue
        q = float(RS.counting_teststat(ts, mu, [float(n) for n in ns], ss, bs, 0.0, 10.0)[0])
        if q >= q_obs - 1e-6:
            p_sb += w_sb
            p_b += w_b
        if abs(q - q_obs) <= 1e-6:
            p_tie_sb += w_sb
            p_tie_b += w_b
    # pyhf reports for q/qtilde: tails = [CLsb, CLb]; for q0: main = CLsb (p0 under mu=0), tails = [CLb]
    pairs = []
    if ts == "q0":
        pairs = [("p0 (tail under mu=0)", main, p_sb, p_tie_sb), ("tail under mu=1", tails[0], p_b, p_tie_b)]
    else:
        pairs = [("CL_s+b", tails[0], p_sb, p_tie_sb), ("CL_b", tails[1], p_b, p_tie_b)]
    # When the observed statistic sits in the zeroed region (q_obs = 0 mathematically: fitted POI at its bound or beyond
    # the tested value) pyhf's value is fit noise of order 1e-9 on either side of the toys' own noise, so the tie mass at
    # zero may or may not be counted; for q_obs > 0 identical counts give bit-identical statistics and ties are exact.
    zero_region = q_obs < 1e-6
    bad = []
    for label, got, exact, tie in pairs:
        window = 6 * math.sqrt(max(exact * (1 - exact), 1e-12) / ntoys) + 1.0 / ntoys
        lo_ok = exact - (tie if zero_region else 0.0) - window
        if not (lo_ok <= got <= exact + window):
            bad.append(f"{label}: toy estimate {got:.4f}, exact {exact:.4f} (window {window:.4f}{', tie mass at zero ' + format(tie, '.3f') if zero_region else ''})")
    if bad:
        shard.violate(f"C14/toy-vs-exact:{ts}", "; ".join(bad) + f"; s={ss} b={bs} n_obs={obs} mu={mu} P(q=q_obs)={p_tie_sb:.3f} ntoys={ntoys} seed={seed} backend={backend}{' (second POI value on a reused calculator)' if reuse else ''}", case, "toy_vs_exact")
    else:
        shard.ok("toy_vs_exact", len(pairs))
        if all(0.02 < e < 0.98 for _, _, e, _ in pairs) and p_tie_sb > 0.01:
            shard.nontrivial("toys", ss, bs, obs, mu, ts, backend)
            shard.covered("toy_ties", "P(q = q_obs) > 1%")
    shard.covered("toy_statistics", ts)
    if reuse:
        shard.covered("toy_calculator", "second POI value on a reused calculator")


def check_toys_exact_fixed_nuisance(rng, shard, backend, ntoys):
    """One-bin model with a Poisson-constrained gamma that the CALLER holds fixed at a non-default value: the
    statistic depends on n only and n ~ Pois(mu s + gamma0 b), so both tail probabilities are enumerable."""
    import pyhf

    s_, b_, d_ = round(rng.uniform(2.0, 5.0), 2), round(rng.uniform(3.0, 7.0), 2), round(rng.uniform(0.8, 1.5), 2)
    model = pyhf.simplemodels.uncorrelated_background([s_], [b_], [d_])
    g0 = round(rng.choice([0.7, 0.8, 1.25, 1.4]), 2)
    init, fixed = [1.0, g0], [False, True]
    mu = rng.choice([1.0, 1.5, 2.0])
    n_obs = float(gen.poisson_draw(rng, g0 * b_ + 0.3 * s_))
    data = [n_obs] + list(model.config.auxdata)
    seed = rng.randrange(1 << 30)
    seed_all(seed)
    case = {"s": s_, "b": b_, "unc": d_, "gamma_fixed_at": g0, "n_obs": n_obs, "mu": mu, "ntoys": ntoys, "seed": seed, "backend": backend}
    try:
        res = pyhf.infer.hypotest(mu, data, model, init_pars=init, fixed_params=fixed, calctype="toybased", ntoys=ntoys, track_progress=False, return_tail_probs=True)
    except Exception as e:
        shard.violate("C14/toy-hypotest-raised", f"{type(e).__name__}: {str(e)[:200]}; backend={backend}", case, "toy_vs_exact")
        return
    tails = [float(to_np(x)) for x in res[1]]
    beff = g0 * b_
    q_obs = float(RS.counting_teststat("qtilde", mu, [n_obs], [s_], [beff], 0.0, 10.0)[0])
    # The sampled auxiliary data differ from toy to toy; they cancel in the statistic only up to rounding, so a toy
    # with n = n_obs lands within ~1e-15 of q_obs on either side: the tie mass may be counted or not.  The toy
    # estimate must therefore lie between P(q > q_obs) and P(q >= q_obs), within binomial error.
    p_sb = p_b = t_sb = t_b = 0.0
    for n in range(int(beff + 10 * s_ + 60)):
        q = float(RS.counting_teststat("qtilde", mu, [float(n)], [s_], [beff], 0.0, 10.0)[0])
        if q >= q_obs - 1e-6:
            p_sb += pois_pmf(n, mu * s_ + beff)
            p_b += pois_pmf(n, beff)
        if abs(q - q_obs) <= 1e-6:
            t_sb += pois_pmf(n, mu * s_ + beff)
            t_b += pois_pmf(n, beff)
    bad = []
    for label, got, exact, tie in (("CL_s+b", tails[0], p_sb, t_sb), ("CL_b", tails[1], p_b, t_b)):
        window = 6 * math.sqrt(max(exact * (1 - exact), 1e-12) / ntoys) + 1.0 / ntoys
        if not (exact - tie - window <= got <= exact + window):
            bad.append(f"{label}: toy estimate {got:.4f}, exact tail between {exact - tie:.4f} (ties excluded) and {exact:.4f} (ties included), window {window:.4f}")
    if bad:
        shard.violate("C14/toy-vs-exact:fixed-nuisance", "; ".join(bad) + f"; s={s_} b={b_} gamma fixed at {g0} n_obs={n_obs} mu={mu} ntoys={ntoys} seed={seed}", case, "toy_vs_exact")
    else:
        shard.ok("toy_vs_exact", 2)
        shard.covered("toy_masks", "nuisance fixed by the caller at a non-default value")
        if 0.02 < p_sb < 0.98 and 0.02 < p_b < 0.98:
            shard.nontrivial("toys-fixed", s_, b_, g0, n_obs, mu, backend)


def check_toy_hypotheses(rng, shard, backend):
    """Monitor on make_pdf inside ToyCalculator.distributions: the two samples are drawn at the conditional
    best-fit parameters of mu_test and of mu=0 (mu=1 for q0)."""
    import pyhf
    import pyhf.infer.calculators as C

    model = pyhf.simplemodels.uncorrelated_background([round(rng.uniform(3, 8), 1)], [round(rng.uniform(20, 60), 1)], [round(rng.uniform(3, 8), 1)])
    data = [float(gen.poisson_draw(rng, 50))] + list(model.config.auxdata)
    ts = rng.choice(["qtilde", "q0", "q"])
    mu = 0.0 if ts == "q0" else rng.choice([0.5, 1.0, 2.0])
    # half of the time the caller fixes the nuisance parameter at a non-default value
    user_fixed = rng.random() < 0.5
    init = list(model.config.suggested_init())
    fixed = list(model.config.suggested_fixed())
    if user_fixed:
        init[1] = round(rng.uniform(0.7, 1.4), 2)
        fixed[1] = True
    events = []
    orig_make = model.make_pdf

    def make_pdf(pars):
        # make_pdf is also called by every likelihood evaluation (possibly with tracers): only the pdf objects
        # that are actually *sampled* are of interest, so the hook sits on the returned object's sample()
        pdf = orig_make(pars)
        try:
            orig_sample = pdf.sample

            def sample(shape=()):
                events.append(("sample", [float(x) for x in to_np(pars)]))
                return orig_sample(shape)

            pdf.sample = sample
        except Exception:
            pass
        return pdf

    model.make_pdf = make_pdf
    seed_all(rng.randrange(1 << 30))
    calc = C.ToyCalculator(data, model, init_pars=init, fixed_params=fixed, test_stat=ts, ntoys=4, track_progress=False)
    n_before = len(events)
    sb, b = calc.distributions(mu)
    drawn = [e[1] for e in events[n_before:]][:2]
    model.make_pdf = orig_make
    want_sig = [float(x) for x in to_np(pyhf.infer.mle.fixed_poi_fit(mu, data, model, init, None, fixed))]
    want_bkg = [float(x) for x in to_np(pyhf.infer.mle.fixed_poi_fit(1.0 if ts == "q0" else 0.0, data, model, init, None, fixed))]
    case = {"data": data, "mu": mu, "test_stat": ts, "backend": backend, "init_pars": init, "fixed_params": fixed}
    shard.covered("toy_hypotheses_masks", "nuisance fixed by the caller" if user_fixed else "default")
    ok = len(drawn) == 2 and all(abs(a - b_) <= 1e-6 * (abs(b_) + 1) for a, b_ in zip(drawn[0], want_sig)) and all(abs(a - b_) <= 1e-6 * (abs(b_) + 1) for a, b_ in zip(drawn[1], want_bkg))
    nsb, nb_ = len(to_np(sb.samples)), len(to_np(b.samples))
    if not ok:
        shard.violate("C14/toy-hypotheses", f"pseudo-data drawn at {drawn}, conditional best fits are signal {want_sig} and background-like {want_bkg}; stat={ts}", case, "toy_hypotheses")
    elif nsb != 4 or nb_ != 4:
        shard.violate("C14/toy-count", f"requested 4 toys, got {nsb} and {nb_} statistics", case, "toy_hypotheses")
    else:
        shard.ok("toy_hypotheses")


def plan(tier, seed):
    if tier == "quick":
        lay = [("numpy", 40, 3, 1, 1500)] * 8 + [("numpy", 40, 3, 2, 1500)] * 2 + [("jax", 30, 2, 0, 0), ("pytorch", 30, 2, 1, 800), ("pytorch", 30, 2, 0, 0), ("tensorflow", 20, 1, 0, 0), ("jax", 30, 2, 1, 600), ("tensorflow", 20, 1, 0, 0)]
    else:
        lay = [("numpy", 3000, 80, 28, 2000)] * 10 + [("jax", 1200, 30, 6, 1000)] * 2 + [("pytorch", 1200, 40, 10, 1500)] * 2 + [("tensorflow", 600, 16, 2, 600)] * 2
    return [{"backend": b, "n_emp": e, "n_samp": s, "n_toys": t, "ntoys": nt, "seed": seed * 472882027 + i} for i, (b, e, s, t, nt) in enumerate(lay)]


def run_shard(shard):
    import logging
    logging.disable(logging.CRITICAL)
    import warnings
    warnings.simplefilter("ignore")
    import pyhf

    p = shard.params
    pyhf.set_backend(p["backend"], "scipy", precision="64b")
    shard.covered("backends", p["backend"])
    rng = random.Random(p["seed"])
    for k in range(p["n_emp"]):
        check_empirical(rng, shard, p["backend"])
    for k in range(p["n_samp"]):
        check_sampling(rng, shard, p["backend"], 0)
    for k in range(p["n_toys"]):
        check_toys_exact(rng, shard, p["backend"], p["ntoys"])
    if p["n_toys"]:
        check_toys_exact_fixed_nuisance(rng, shard, p["backend"], min(p["ntoys"], 800))
    for k in range(4):
        check_toy_hypotheses(rng, shard, p["backend"])
    if shard.index == 0:
        shard.sample({"empirical": {"samples": [0.0, 1.0, 1.0, 3.0], "value": 1.0, "exact_pvalue": 0.75},
                      "toys": {"model": "n ~ Pois(mu*s + b), s=3.1, b=4.2", "exact": "sum over n with q(n) >= q(n_obs) of Pois(n | mu s + b)"}})


def replay(rec, shard):
    print("C14 witness:", str(rec.get("case"))[:3000])
