"""mpmath formulae of arXiv:1007.1727 and closed-form counting-model results."""
import math

import mpmath

mp = mpmath.mp.clone()
mp.dps = 40


def Phi(x):
    return mp.erfc(-mp.mpf(x) / mp.sqrt(2)) / 2


def asymptotic_pvalues(q, qA, test_stat):
    """Return (CLsb, CLb, CLs, args) for observed q and Asimov qA (> 0)."""
    q, qA = mp.mpf(q), mp.mpf(qA)
    sq, sqA = mp.sqrt(q), mp.sqrt(qA)
    if test_stat in ("q", "q0") or q <= qA:
        a_sb, a_b = sq, sq - sqA
    else:
        a_sb, a_b = (q + qA) / (2 * sqA), (q - qA) / (2 * sqA)
    clsb, clb = Phi(-a_sb), Phi(-a_b)
    return clsb, clb, clsb / clb, (float(a_sb), float(a_b))


def expected_pvalues(qA, test_stat, base="normal"):
    """Lists over N = [2, 1, 0, -1, -2] (pyhf's order, i.e. the -2sigma .. +2sigma band) of (CLsb, CLb, CLs)."""
    sqA = mp.sqrt(mp.mpf(qA))
    out = []
    for N in (2, 1, 0, -1, -2):
        t = mp.mpf(N)
        if base == "clipped_normal":
            t = max(t, -sqA)
        clsb, clb = Phi(-(t + sqA)), Phi(-t)
        out.append((clsb, clb, clsb / clb, float(t)))
    return out


# ------------------------------------------------------------------ counting models
def poisson_nll2(n, lam):
    """-2 log Pois(n | lam) in mpmath (continuous in n)."""
    n, lam = mp.mpf(n), mp.mpf(lam)
    if lam <= 0:
        return mp.inf if n > 0 or lam < 0 else mp.mpf(0)
    return -2 * (n * mp.log(lam) - lam - mp.loggamma(n + 1))


def counting_nll2(mu, ns, ss, bs):
    return mp.fsum(poisson_nll2(n, mu * s + b) for n, s, b in zip(ns, ss, bs))


def counting_muhat(ns, ss, bs, lo, hi):
    """MLE of mu for independent bins n_i ~ Pois(mu s_i + b_i), clipped to [lo, hi]."""
    ns, ss, bs = [mp.mpf(x) for x in ns], [mp.mpf(x) for x in ss], [mp.mpf(x) for x in bs]

    def score(mu):
        return mp.fsum(s * (n / (mu * s + b) - 1) for n, s, b in zip(ns, ss, bs))

    lo, hi = mp.mpf(lo), mp.mpf(hi)
    # the likelihood is concave in mu: score is decreasing
    mu_min = max(lo, max(-b / s for s, b in zip(ss, bs)) + mp.mpf("1e-12"))
    if score(mu_min) <= 0:
        return mu_min if mu_min > lo else lo
    if score(hi) >= 0:
        return hi
    a, b_ = mu_min, hi
    for _ in range(200):
        m = (a + b_) / 2
        if score(m) > 0:
            a = m
        else:
            b_ = m
        if b_ - a < mp.mpf("1e-30"):
            break
    return (a + b_) / 2


def counting_teststat(kind, mu, ns, ss, bs, lo, hi):
    """Closed-form profile-likelihood statistic for the signal-strength-only model."""
    muhat = counting_muhat(ns, ss, bs, lo, hi)
    if kind == "q0":
        mu = 0
    t = counting_nll2(mu, ns, ss, bs) - counting_nll2(muhat, ns, ss, bs)
    t = max(t, mp.mpf(0))
    if kind in ("q", "qtilde") and muhat > mu:
        t = mp.mpf(0)
    if kind == "q0" and muhat < 0:
        t = mp.mpf(0)
    return t, muhat
