#!/bin/bash
# tools/killseeded.sh [seed] [ids...] : run every kept seeded change through the first check recorded in its meta.json
# (quick tier) and print one line per change: caught / MISSED.  Optional ids restrict to those properties.
HERE="$(cd "$(dirname "${BASH_SOURCE[0]}")/.." && pwd)"
SEED=${1:-2}; shift
ONLY="$*"
for d in "$HERE"/seeded/*/; do
  n=$(basename "$d")
  c=$(python3 -c "import json;m=json.load(open('$d/meta.json'));print((m.get('checks') or [m['property']])[0])")
  if [ -n "$ONLY" ] && ! echo " $ONLY " | grep -q " $c "; then continue; fi
  out=$("$HERE"/tools/mutant.sh "$d/patch.diff" "$c" "$SEED" 2>&1 | tail -1)
  if echo "$out" | grep -q "violated"; then echo "caught  $n  $c"; else echo "MISSED  $n  $c  :: $out"; fi
done
