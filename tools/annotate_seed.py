#!/usr/bin/env python3
"""tools/annotate_seed.py <seed name> <ID=verdict[:mechanism]> ...

Record in seeded/<name>/meta.json which checks were run against the change and what they said
(quick tier, seed 1, via tools/mutant.sh), together with the demo exit codes from the logs
tools/confirm_seed.sh left beside it.
"""
import json
import os
import sys

here = os.path.dirname(os.path.dirname(os.path.abspath(__file__)))
name = sys.argv[1]
d = os.path.join(here, "seeded", name)
meta = json.load(open(os.path.join(d, "meta.json")))


def demo_exit(log):
    p = os.path.join(d, log)
    if not os.path.exists(p):
        return None
    txt = open(p).read()
    return 1 if ("Error" in txt or "Traceback" in txt) else 0


runs, caught = [], []
for arg in sys.argv[2:]:
    cid, _, verdict = arg.partition("=")
    runs.append(f"tools/mutant.sh seeded/{name}/patch.diff {cid} 1  -> {verdict} (quick tier, seed 1)")
    if verdict.startswith("VIOLATION"):
        caught.append(cid)
meta["checks"] = caught
codes = os.path.join(d, "demo_exit_codes.txt")
a, b = (int(x) for x in open(codes).read().split()) if os.path.exists(codes) else (0, 1)
meta["confirmed"] = {
    "demo_exit_unmodified_tree": a,
    "demo_exit_with_change": b,
    "how": "tools/confirm_seed.sh: demo.py run against /repo/src and against a scratch copy of /repo/src with patch.diff applied (logs beside this file); the producing agent ran the related pinned test files with the change (see tests_run)",
    "checks_run": runs,
}
json.dump(meta, open(os.path.join(d, "meta.json"), "w"), indent=1)
print(name, "->", caught)
