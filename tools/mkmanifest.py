#!/usr/bin/env python3
"""Regenerate /verif/MANIFEST.json from the table below (single source of truth)."""
import json
import os

HERE = os.path.dirname(os.path.dirname(os.path.abspath(__file__)))

CHECKS = {
    "C17": dict(
        category="fault_enumeration",
        technique="runtime monitor on PatchSet API + exhaustive single-leaf fault injection per document",
        text="Boundary monitors on PatchSet construction, lookup, verify and apply judge every generated document "
             "against a lookup grammar, an independent digest and an independent RFC-6902 interpreter; every scalar "
             "leaf of each workspace is corrupted in turn and verification must fail each time. Exhaustive per "
             "document, sampled over documents.",
        note="Trusts hashlib/json and the 60-line reference JSON-patch interpreter; documents beyond 6 patches / 3 labels unexplored.",
        design="§3 C17",
    ),
}

PENDING_REASON = "check not built yet in this session (runtime monitor planned in DESIGN.md); not claimed until it exists and is silent"


def main():
    props = [json.loads(l) for l in open(os.path.join(HERE, "properties.jsonl"))]
    checks = []
    na = []
    for p in props:
        pid = p["id"]
        c = CHECKS.get(pid)
        if not c:
            na.append({"property_id": pid, "reason": PENDING_REASON})
            continue
        checks.append({
            "property_id": pid,
            "quick_cmd": f"./check {pid} --tier quick",
            "thorough_cmd": f"./check {pid} --tier thorough",
            "evidence_file": f"/verif/evidence/{pid}.json",
            "replay_cmd_template": f"./check {pid} --replay {{path}}",
            "engine": "pyhfmon",
            "level_claimed": {"category": c["category"], "text": c["text"], "design_ref": c["design"]},
            "level_note": c["note"],
            "technique": c["technique"],
        })
    manifest = {
        "version": 1,
        "setup_cmd": "bash ./setup.sh",
        "hooks": {
            "guard": "PYHF_VERIF",
            "enable": "no source hooks: monitors are attached from /verif at run time (wrappers + rebinding sweep, sys.monitoring reach map); ./check sets PYHF_VERIF=1 and imports pyhf from /repo/src in fresh processes",
            "baseline_off_cmd": "cd /repo && /venv/bin/python -m pytest -ra -q -p no:cacheprovider --timeout=900 --continue-on-collection-errors",
            "source_commits": [],
            "add_only": True,
        },
        "engines": [{
            "name": "pyhfmon",
            "path": "/verif/pyhfmon",
            "serves_properties": sorted(CHECKS),
            "kind_free_text": "runtime monitoring: boundary/postcondition monitors with reference-model oracles over seeded generated workloads, sharded over processes",
        }],
        "checks": checks,
        "notes": "Every check: exit 0 held on what was observed (KNOWN-FINDING lines allowed), exit 1 VIOLATION, exit 2 INCONCLUSIVE (monitor not reached / shard crashed). Known findings in /verif/known_findings.json keyed by mechanism.",
        "not_applicable": na,
    }
    with open(os.path.join(HERE, "MANIFEST.json"), "w") as f:
        json.dump(manifest, f, indent=1)
    print(f"MANIFEST.json: {len(checks)} checks, {len(na)} not claimed")


if __name__ == "__main__":
    main()
