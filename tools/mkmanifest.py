#!/usr/bin/env python3
"""Regenerate /verif/MANIFEST.json from the table below (single source of truth)."""
import json
import os

HERE = os.path.dirname(os.path.dirname(os.path.abspath(__file__)))

def _expl(technique, text, note, design):
    return dict(category="exploration", technique=technique, text=text, note=note, design=design)


CHECKS = {
    "C01": _expl("boundary monitor on expected_data* vs naive per-cell reference model (runtime monitoring)",
                 "Every observed expected_actualdata/expected_data/by-sample call over generated specs, points in every interpolation regime, interpcode/clip/batch settings and all four backends is compared cell by cell with a loop-based reference built from the raw spec and the reported layout; plus locality and by-sample-sum witnesses.",
                 "Float64 reference; interpolation formula taken from pyhf's scalar interpolator (C03 decides it); generator bounds (<=4 channels, <=5 bins).", "§3 C01"),
    "C02": _expl("boundary monitor on logpdf/pdf/mainlogpdf/constraint_logpdf/expected_auxdata vs term-by-term reference density",
                 "Each observed density call is compared with the sum of Poisson main terms (at pyhf's own rates) and one reference constraint term per component built from the raw spec and overrides, with independently perturbed, pairwise distinct auxiliary data; aux-pairing witness moves one datum at a time.",
                 "Cancellation-aware tolerance 1e-10*sum|terms|; degenerate constraint components judged by differences only.", "§3 C02"),
    "C03": _expl("boundary monitor on interpolators (fast, slow, all backends) vs independently solved reference; continuity/C1/C2 witnesses; call-shape histories",
                 "All five codes (and alpha0 != 1 for code 4) are evaluated on random triples and alpha grids including nextafter ladders around every breakpoint and compared with reference formulae whose polynomial coefficients are solved from the boundary conditions; one-sided finite differences of pyhf's own output check smoothness; call-shape histories are compared with fresh instances.",
                 "Reference self-checked in every run; 64-bit only; tolerance 1e-9 x magnitude of terms.", "§3 C03"),
    "C04": _expl("boundary monitor on tensorlib probability primitives vs mpmath (50 digits) with an error budget in roundings of the terms",
                 "Poisson log-mass/mass, Normal log-density/density, Normal CDF and the distribution objects are evaluated on directed argument tuples (zeros, subnormals, 1e8, 20 decades of sigma, +-38 sigma) on 4 backends x 2 precisions and judged against mpmath on the inputs as rounded.",
                 "K=16 roundings of the terms; absolute floor 16*min_normal; known finding: subnormal rates on XLA/TF.", "§3 C04"),
    "C05": _expl("passive postcondition monitor on every fit/fixed_poi_fit (rebinding sweep) + adversarial better-point search, closed forms, configuration matrix",
                 "Every fit the workload or pyhf itself makes (test statistics, Asimov generation, toys, limit scans) is checked for bounds, exactly held fixed parameters/POI and an honest objective; the driver's own fits are attacked with multi-start L-BFGS-B + Nelder-Mead, compared with closed forms, and compared across stitch x grad x {scipy, minuit} x 4 backends.",
                 "Optimality is only refutable; margins 1e-4 (SciPy) / 2e-2 (MINUIT default tolerance); datasets drawn around the expectation only.", "§3 C05"),
    "C08": _expl("monitor on hypotest/generate_asimov_data with closed-form counting models, a layout grammar over 16 flag sets, refusal rules and captured-(q,q_A) wiring",
                 "Observed and expected CLs / p0 for signal-strength-only models are compared with the analytic asymptotic values; every flag combination is parsed against the documented tuple grammar for q, qtilde, q0 and for toy-based runs; the Asimov dataset is compared with the model expectation at the conditional fit; POI-less and fixed-POI tests must be refused; (q, q_A) captured from the real statistic calls must reproduce the reported p-values.",
                 "Closed forms by bisection on the concave score in mpmath; toy runs judged for layout only.", "§3 C08"),
    "C09": _expl("monitor on upper_limit/toms748_scan/linear_grid_scan and the inner hypotest calls; CLs re-evaluated at the returned limits",
                 "For automatic scans the level must be bracketed within mu(1+-1e-3) at each checked curve and |CLs-level|<=1%; for grids each limit must lie in the crossing cell of the returned curve; expected limits ordered; returned per-point results re-evaluated; inner hypotest kwargs compared with the caller's; a different level must move the limit.",
                 "Non-monotone or non-bracketing curves are skipped by a stated domain guard.", "§3 C09"),
    "C13": _expl("monitor on shim(do_grad=True)['func'] vs Richardson finite differences of the non-grad objective",
                 "The value-and-gradient function handed to optimisers is compared with the non-differentiating path and with 4th-order central differences component by component on jax, pytorch and tensorflow, with do_stitch on/off and fixed masks, at points in every interpolation regime; exactly on breakpoints one-sided stencils on both sides bound the component.",
                 "Kinks of codes 0/1 at alpha=0 have no derivative and are recorded, not judged; 64-bit only.", "§3 C13"),
    "C06": _expl("postcondition monitor on the five test statistics, re-derived at the returned fitted parameters; closed forms",
                 "Each statistic call returns its fitted parameter vectors; the monitor recomputes 2NLL at them through the model and checks non-negativity, the max(0, difference) identity, the one-sided zeroing rules, the POI pinning, the closed form for counting models and q(muhat)=0.",
                 "Fits reporting failure are skipped; tolerances tied to measured SLSQP noise.", "§3 C06"),
    "C07": _expl("scripted (q, q_A) injection into the real AsymptoticCalculator + hypotest, judged against mpmath formulae",
                 "get_test_stat / generate_asimov_data are rebound to stubs so the real transform, distributions, p-value and hypotest tuple code is driven over the whole (q, q_A) plane including the q=q_A seam and the 37-sigma boundary, on every backend and both base distributions; ordering invariants are checked reference-free.",
                 "Only tails below 37 sigma are judged; mpmath erfc trusted.", "§3 C07"),
    "C10": _expl("paired-execution monitor: batched model vs the unbatched model row by row",
                 "N pairwise-distinct parameter vectors and datasets go through Model(spec, batch_size=N) and through the unbatched model; every row of expected data, by-sample rates, log-densities and the sampled-data shape must agree.",
                 "Oracle is the unbatched model itself; N<=8.", "§3 C10"),
    "C11": _expl("trace monitor over switch/create/delete/eval histories with an offline fresh-object oracle",
                 "Random histories of set_backend(name, precision, optimizer) interleaved with creation, deletion (+gc) and evaluation of models, interpolators and viewers are executed and logged; every eval of an object born before the last switch must equal (value, tensor type, dtype) the eval of a fresh object created at that moment; no switch or eval may raise.",
                 "Histories up to 14 events over the four built-in backends; objects pyhf itself still references (jit cache) are not 'collected'.", "§3 C11"),
    "C14": _expl("exact counting oracle on EmpiricalDistribution, moment z-tests on sampled pseudo-data, toy p-values vs exactly enumerated tail probabilities, hook on the sampled pdf objects",
                 "(a) pvalue == count(s>=v)/n exactly with ties and out-of-range values on every backend; (b) 20000 draws per model/point: shape, integer non-negative counts, per-bin mean/variance vs rate, auxiliary mean/sd vs constraint terms; (c) toy CL_s+b/CL_b of small counting models within 6 binomial sigma of the enumerated probability; the pdf objects sampled inside ToyCalculator.distributions must sit at the conditional best fits of mu_test and mu=0 (1 for q0).",
                 "Statistical verdicts at fixed seeds (false-alarm < 1e-7 per run); samplers of scipy/torch/TFP trusted as part of observable behaviour.", "§3 C14"),
    "C15": _expl("metamorphic pair monitor: inference on a model vs on a likelihood-preserving rewrite / another configuration",
                 "Maximised likelihood, observed and expected CLs and upper limits are compared between each generated model and its rewrites (permute, rename, zero-yield sample, null systematics, channel split, sample split/merge, signal scaling with covariance) and compositions, across the four backends and against MINUIT at tight tolerance.",
                 "Relations hold up to calibrated optimiser noise (<=2.5e-6 observed, 1e-4 allowed); a defect common to both sides is invisible here.", "§3 C15"),
    "C16": _expl("monitor on Workspace.combine/prune/rename/sorted with reference set-algebra on raw dicts and likelihood factorisation identities",
                 "Generated workspace pairs (disjoint, overlapping-identical, overlapping-conflicting) under all join modes: content union, mainlogpdf factorisation with parameters identified by name, each constrained set once, advertised refusals; prune vs independent filter (+ channel-prune factorisation), rename vs relabelling and its inverse, sorted idempotent/canonical/likelihood-preserving; outputs schema-valid, inputs untouched.",
                 "Only advertised refusals are demanded; merge_channels with clashing sample definitions is unjudged.", "§3 C16"),
    "C18": _expl("history monitor on writexml -> readxml.parse cycles into same/different directories",
                 "Exportable generated workspaces are written and parsed back; structure, yields, observations, POI, constant flags and modifier data are diffed, the likelihoods of original and re-imported models are compared at random parameters/aux data/datasets with parameters mapped by name, lumi centre and sigma must be recovered, and re-exports into already imported directories must return the new content.",
                 "Generator restricted to what HistFactory XML can express; uproot I/O trusted as observable behaviour.", "§3 C18"),
    "C19": _expl("boundary monitor on CLI invocations (CliRunner + real processes) vs the library call on the same inputs",
                 "Every subcommand with random option combinations, stdin/file input and stdout/file output is compared with the corresponding library call from a fresh backend state: exit status iff success, JSON/text equal, file output equal to stdout, failing invocations fail.",
                 "Toy-based cls only once per run (no seed option on the CLI); contrib/completion subcommands out of scope.", "§3 C19"),
    "C12": _expl("icontract postcondition on Model.__init__ + monitors on Workspace.data/build/model; permutation and mutation witnesses",
                 "Pure structural predicates over the public configuration (slices tile the parameter vector, one entry per component, channel slices tile the data, aux layout), overrides verbatim/defaults otherwise, Workspace.data layout, Workspace.build round trip, caller's dict untouched, invariance under permutations of every list.",
                 "Structural predicates exact; likelihood comparisons 1e-9.", "§3 C12"),
    "C20": dict(category="fault_enumeration", technique="outcome classifier on Model(spec) under structural fault injection at every applicable position (runtime monitoring)",
                text="Every fault class of the statement is injected at every applicable position of each generated parent spec (plus pairs, including compensating pairs); the only acceptable outcome is a pyhf.exceptions class; the unfaulted parent must be accepted.",
                note="Exhaustive over positions within each parent, sampled over parents; schema-invalid faulted specs skipped.", design="§3 C20"),
    "C17": dict(
        category="fault_enumeration",
        technique="runtime monitor on PatchSet API + exhaustive single-leaf fault injection per document",
        text="Boundary monitors on PatchSet construction, lookup, verify and apply judge every generated document "
             "against a lookup grammar, an independent digest and an independent RFC-6902 interpreter; every scalar "
             "leaf of each workspace is corrupted in turn and verification must fail each time. Exhaustive per "
             "document, sampled over documents.",
        note="Trusts hashlib/json and the 60-line reference JSON-patch interpreter; documents beyond 6 patches / 3 labels unexplored.",
        design="§3 C17",
    ),
}

PENDING_REASON = "check not built yet in this session (runtime monitor planned in DESIGN.md); not claimed until it exists and is silent"


def main():
    props = [json.loads(l) for l in open(os.path.join(HERE, "properties.jsonl"))]
    checks = []
    na = []
    for p in props:
        pid = p["id"]
        c = CHECKS.get(pid)
        if not c:
            na.append({"property_id": pid, "reason": PENDING_REASON})
            continue
        checks.append({
            "property_id": pid,
            "quick_cmd": f"./check {pid} --tier quick",
            "thorough_cmd": f"./check {pid} --tier thorough",
            "evidence_file": f"/verif/evidence/{pid}.json",
            "replay_cmd_template": f"./check {pid} --replay {{path}}",
            "engine": "pyhfmon",
            "level_claimed": {"category": c["category"], "text": c["text"], "design_ref": c["design"]},
            "level_note": c["note"],
            "technique": c["technique"],
        })
    manifest = {
        "version": 1,
        "setup_cmd": "bash ./setup.sh",
        "hooks": {
            "guard": "PYHF_VERIF",
            "enable": "no source hooks: monitors are attached from /verif at run time (wrappers + rebinding sweep, sys.monitoring reach map); ./check sets PYHF_VERIF=1 and imports pyhf from /repo/src in fresh processes",
            "baseline_off_cmd": "cd /repo && /venv/bin/python -m pytest -ra -q -p no:cacheprovider --timeout=900 --continue-on-collection-errors",
            "source_commits": [],
            "add_only": True,
        },
        "engines": [{
            "name": "pyhfmon",
            "path": "/verif/pyhfmon",
            "serves_properties": sorted(CHECKS),
            "kind_free_text": "runtime monitoring: boundary/postcondition monitors with reference-model oracles over seeded generated workloads, sharded over processes",
        }],
        "checks": checks,
        "notes": "Every check: exit 0 held on what was observed (KNOWN-FINDING lines allowed), exit 1 VIOLATION, exit 2 INCONCLUSIVE (monitor not reached / shard crashed). Known findings in /verif/known_findings.json keyed by mechanism.",
        "not_applicable": na,
    }
    with open(os.path.join(HERE, "MANIFEST.json"), "w") as f:
        json.dump(manifest, f, indent=1)
    print(f"MANIFEST.json: {len(checks)} checks, {len(na)} not claimed")


if __name__ == "__main__":
    main()
