"""pytest plugin for the *fast* baseline check only: import the heavy modules once, the way the
single-process baseline run has them imported by earlier tests (several script tests are
order-dependent and fail when they are the first to import pyhf.cli / torch under
filterwarnings=error)."""
import warnings


def pytest_configure(config):
    with warnings.catch_warnings():
        warnings.simplefilter("ignore")
        import pyhf.cli  # noqa
        for m in ("torch", "jax", "tensorflow", "tensorflow_probability"):
            try:
                __import__(m)
            except Exception:
                pass
