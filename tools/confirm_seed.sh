#!/bin/bash
# tools/confirm_seed.sh <worktree dir> <name> : confirm a seeded change (demo passes on /repo, fails with the patch applied to a scratch copy)
W=$1; NAME=$2
HERE="$(cd "$(dirname "${BASH_SOURCE[0]}")/.." && pwd)"
DEST="$HERE/seeded/$NAME"; mkdir -p "$DEST"
git -C "$W" diff -- src > "$DEST/patch.diff"
cp "$W/demo.py" "$DEST/demo.py"; cp "$W/meta.json" "$DEST/meta.json" 2>/dev/null
D=$(mktemp -d /tmp/pyhfseed.XXXXXX); cp -r /repo/src "$D/src"
patch -p1 -s -d "$D" < "$DEST/patch.diff" || { echo "PATCH DOES NOT APPLY to /repo HEAD"; rm -rf "$D"; exit 3; }
cd /tmp
env -u PYHF_VERIF PYTHONPATH=/repo/src TF_CPP_MIN_LOG_LEVEL=3 timeout 900 /venv/bin/python -W ignore "$DEST/demo.py" > "$DEST/demo_unmodified.log" 2>&1; a=$?
env -u PYHF_VERIF PYTHONPATH="$D/src" TF_CPP_MIN_LOG_LEVEL=3 timeout 900 /venv/bin/python -W ignore "$DEST/demo.py" > "$DEST/demo_patched.log" 2>&1; b=$?
rm -rf "$D"
echo "$a $b" > "$DEST/demo_exit_codes.txt"
echo "$NAME: demo exit on unmodified tree = $a (want 0), with the change = $b (want != 0); patch $(grep -c '^[+-][^+-]' "$DEST/patch.diff") changed lines in $(grep -c '^diff' "$DEST/patch.diff") file(s)"
tail -2 "$DEST/demo_patched.log" | cut -c1-300
