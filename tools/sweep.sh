#!/bin/bash
# tools/sweep.sh "<ids>" "<seeds>" [tier]  — run checks over several seeds, print one line per run
HERE="$(cd "$(dirname "${BASH_SOURCE[0]}")/.." && pwd)"
cd "$HERE"
IDS=${1:-"C01 C02 C03"}; SEEDS=${2:-"0 1 2 3 4"}; TIER=${3:-quick}
for id in $IDS; do for s in $SEEDS; do
  out=$(VERIF_SEED=$s ./check $id --tier $TIER 2>&1 | grep -v conda)
  rc=$?
  echo "$out" | tail -1
  echo "$out" | grep -E "INCONCLUSIVE" | cut -c1-300 | head -2
  echo "$out" | grep -E "VIOLATION|mechanism|KNOWN-FINDING" | cut -c1-400 | head -6
done; done
