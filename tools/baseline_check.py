#!/usr/bin/env python3
"""Run the pinned pyhf suite (guard off) with xdist and compare with BASELINE.json stable_pass.
Usage: tools/baseline_check.py [-n 14] [pytest selectors...]   exit 0 iff every stable_pass test that ran passed."""
import json, os, subprocess, sys, tempfile, xml.etree.ElementTree as ET

def main():
    n = "14"
    args = sys.argv[1:]
    if args[:1] == ["-n"]:
        n = args[1]; args = args[2:]
    env = {k: v for k, v in os.environ.items() if k not in ("PYHF_VERIF", "PYTHONPATH", "PYHF_SRC")}
    base = json.load(open("/root/.vp/BASELINE.json"))
    stable = set(base["stable_pass"])
    passed, failed = set(), set()
    serial = ["tests/test_cli.py", "tests/test_examples.py", "tests/test_scripts.py"]
    runs = []
    if args:
        runs.append((["-n", n] + args, env))
    else:
        runs.append((["-n", n] + [f"--ignore={f}" for f in serial], env))
        # order-dependent files: one process, heavy modules pre-imported as in the single-process baseline
        runs.append((["-p", "preload_plugin"] + serial, dict(env, PYTHONPATH=os.path.dirname(os.path.abspath(__file__)))))
    for extra, e in runs:
        out = tempfile.mktemp(suffix=".xml", dir="/tmp")
        cmd = ["/venv/bin/python", "-m", "pytest", "-q", "-p", "no:cacheprovider", "--timeout=900",
               "--continue-on-collection-errors", f"--junitxml={out}"] + extra
        r = subprocess.run(cmd, cwd="/repo", env=e, stdout=subprocess.PIPE, stderr=subprocess.STDOUT, text=True)
        print(r.stdout[-300:])
        for tc in ET.parse(out).getroot().iter("testcase"):
            name = f"{tc.get('classname')}::{tc.get('name')}"
            bad = any(c.tag in ("failure", "error") for c in tc)
            skipped = any(c.tag == "skipped" for c in tc)
            if bad:
                failed.add(name)
            elif not skipped:
                passed.add(name)
        os.remove(out)
    ran = passed | failed
    regress = sorted(t for t in stable if t in failed)
    missing = sorted(t for t in stable if t not in ran) if not args else []
    print(f"passed={len(passed)} failed={len(failed)} stable_pass={len(stable)} regressions={len(regress)} stable_not_run={len(missing)}")
    for t in regress[:40]:
        print("REGRESSION", t)
    for t in missing[:10]:
        print("NOT-RUN", t)
    sys.exit(1 if regress or (missing and not args) else 0)

main()
