#!/usr/bin/env python3
"""Run checks against every kept change (seeded/<name>/patch.diff, mutants/<ID>/*.diff, revert:<commit> of each fix)
and write the kill matrix.  Usage: tools/killmatrix.py [--only <substr>] [--seeds 0,1]
Each change is applied to a scratch copy of /repo/src (never to /repo)."""
import glob, json, os, re, subprocess, sys, time

HERE = os.path.dirname(os.path.dirname(os.path.abspath(__file__)))

def run(spec, pid, seed):
    t = time.time()
    p = subprocess.run([os.path.join(HERE, "tools", "mutant.sh"), spec, pid, str(seed)], capture_output=True, text=True)
    out = p.stdout
    last = out.strip().splitlines()[-1] if out.strip() else "no output"
    verdict = "caught" if "VIOLATION" in out else ("inconclusive" if "INCONCLUSIVE" in out or "inconclusive" in last else "missed")
    mechs = sorted(set(re.findall(r"mechanism=(\S+)", out)))
    return verdict, mechs, round(time.time() - t)

def main():
    only = None
    seeds = [0]
    a = sys.argv[1:]
    while a:
        if a[0] == "--only":
            only = a[1]; a = a[2:]
        elif a[0] == "--seeds":
            seeds = [int(x) for x in a[1].split(",")]; a = a[2:]
        else:
            a = a[1:]
    jobs = []
    for d in sorted(glob.glob(os.path.join(HERE, "seeded", "*"))):
        meta = os.path.join(d, "meta.json")
        if os.path.exists(meta) and os.path.exists(os.path.join(d, "patch.diff")):
            m = json.load(open(meta))
            for pid in m.get("checks", [m["property"]]):
                jobs.append((os.path.basename(d), os.path.join(d, "patch.diff"), pid))
    for f in sorted(glob.glob(os.path.join(HERE, "mutants", "*", "*.diff"))):
        jobs.append(("mutants/" + os.path.basename(os.path.dirname(f)) + "/" + os.path.basename(f), f, os.path.basename(os.path.dirname(f))))
    kf = json.load(open(os.path.join(HERE, "known_findings.json")))["findings"]
    seen = set()
    for k in kf:
        if k.get("status") == "fixed" and (k["commit"], k["property"]) not in seen:
            seen.add((k["commit"], k["property"]))
            jobs.append((f"revert of fix {k['commit']}", f"revert:{k['commit']}", k["property"]))
    rows = []
    for name, spec, pid in jobs:
        if only and only not in name and only not in pid:
            continue
        res = [run(spec, pid, s) for s in seeds]
        verdict = "caught" if all(r[0] == "caught" for r in res) else ("caught on some seeds" if any(r[0] == "caught" for r in res) else res[0][0])
        mechs = sorted({m for r in res for m in r[1]})[:4]
        rows.append((name, pid, verdict, mechs, res[0][2]))
        print(f"{name:55s} {pid}  {verdict:22s} {mechs} {res[0][2]}s", flush=True)
    with open(os.path.join(HERE, "seeded", "KILLMATRIX.md"), "w") as f:
        f.write("| change | check (quick tier, seeds %s) | verdict | mechanisms reported |\n|---|---|---|---|\n" % seeds)
        for name, pid, verdict, mechs, t in rows:
            f.write(f"| {name} | {pid} | {verdict} | {', '.join(mechs)} |\n")

main()
