#!/bin/bash
# tools/mutant.sh <patch.diff | revert:<commit>> <ID> [seed] [tier]
# Run one check against a scratch copy of /repo/src with a change applied (never touches /repo).
set -u
SPEC=$1; ID=$2; SEED=${3:-0}; TIER=${4:-quick}
HERE="$(cd "$(dirname "${BASH_SOURCE[0]}")/.." && pwd)"
D=$(mktemp -d /tmp/pyhfmut.XXXXXX)
cp -r /repo/src "$D/src"
if [[ "$SPEC" == revert:* ]]; then
  git -C /repo show "${SPEC#revert:}" -- src | patch -R -p1 -s -d "$D" || { echo "revert failed"; rm -rf "$D"; exit 3; }
else
  patch -p1 -s -d "$D" < "$SPEC" || { echo "patch failed"; rm -rf "$D"; exit 3; }
fi
cd "$HERE"
out=$(PYHF_SRC="$D/src" VERIF_SEED=$SEED ./check "$ID" --tier "$TIER" 2>&1 | grep -v conda)
rc=$?
echo "$out" | grep -E "VIOLATION|KNOWN-FINDING|INCONCLUSIVE" | head -3
echo "$out" | grep -E "mechanism" | sed 's/ detail=.*//' | sort | uniq -c | sort -rn | head -6
echo "$out" | tail -1
rm -rf "$D"
git -C "$HERE" checkout -q -- evidence 2>/dev/null
exit 0
