#!/usr/bin/env python3
"""tools/mkmutant.py <ID> <name> <relative file under /repo> <old text> <new text>  -> mutants/<ID>/<name>.diff"""
import difflib, os, sys
pid, name, rel, old, new = sys.argv[1:6]
src = open(os.path.join("/repo", rel)).read()
assert src.count(old) >= 1, f"pattern not found in {rel}"
mut = src.replace(old, new, 1)
d = "".join(difflib.unified_diff(src.splitlines(True), mut.splitlines(True), "a/" + rel, "b/" + rel))
out = os.path.join(os.path.dirname(os.path.dirname(os.path.abspath(__file__))), "mutants", pid)
os.makedirs(out, exist_ok=True)
open(os.path.join(out, name + ".diff"), "w").write(d)
print("wrote", os.path.join(out, name + ".diff"), len(d.splitlines()), "lines")
